/-
  Rivia.Lemmas.ContentTree — what a (no-follow) `copy` of a whole tree does to the DATA map:
  a files-only frame calculus (`FFrame`), the per-entry body `copyStep` (only the destination key of
  the entry can change; a regular file's destination receives the source bytes), and the loop over a
  pre-order listing of the source subtree.

  Lives in the C09 "world" (CopyMove / CopyP / CopyTree / SnapshotCopy); it cannot be imported together
  with Rivia.Lemmas.Content (duplicate declaration names), hence `content` is re-declared here in the
  namespace `Rivia.Lemmas.CT`.
-/
import Rivia.Lemmas.SnapshotCopy

set_option linter.unusedSimpArgs false

namespace Rivia.Lemmas.CT
open Rivia Rivia.Str Rivia.Memfs Rivia.Spec Rivia.Memfs.M Rivia.Lemmas

/-- the bytes stored under key `k` (same definition as `Lemmas.content` of Content.lean) -/
abbrev content (s : State) (k : FsPath) : Option File.Bytes := alLookup k s.files

/-! ### files-only frame calculus -/

/-- `m` changes the data map only at keys satisfying `C` (whatever its outcome) -/
def FFrame {α : Type} (C : FsPath → Prop) (m : M α) : Prop :=
  ∀ st k, ¬ C k → alLookup k (m st).2.files = alLookup k st.files

section
variable {α β : Type} {C : FsPath → Prop}

theorem ffr_of_files_eq {m : M α} (h : ∀ st, (m st).2.files = st.files) : FFrame C m := by
  intro st k _; rw [h st]

theorem ffr_pure (a : α) : FFrame C (Pure.pure a : M α) := ffr_of_files_eq (fun _ => rfl)
theorem ffr_mpure (a : α) : FFrame C (M.pure a : M α) := ffr_of_files_eq (fun _ => rfl)
theorem ffr_fail (k : ErrKind) : FFrame C (M.fail k : M α) := ffr_of_files_eq (fun _ => rfl)
theorem ffr_liftO (o : Outcome α) : FFrame C (M.liftO o) := ffr_of_files_eq (fun _ => rfl)
theorem ffr_getEntry (p : FsPath) : FFrame C (getEntry p) := ffr_of_files_eq (fun _ => rfl)
theorem ffr_getFile (p : FsPath) : FFrame C (getFile p) := ffr_of_files_eq (fun _ => rfl)
theorem ffr_setEntry (p : FsPath) (e : Entry) : FFrame C (setEntry p e) := ffr_of_files_eq (fun _ => rfl)
theorem ffr_dirOf (p : FsPath) : FFrame C (dirOf p) := by
  unfold dirOf; split
  · exact ffr_fail _
  · exact ffr_mpure _

theorem ffr_setFile {p : FsPath} (hp : C p) (b : File.Bytes) : FFrame C (setFile p b) := by
  intro st k hk
  show alLookup k (alInsert p b st.files) = _
  exact alLookup_alInsert_ne (fun h => hk (by rw [← h]; exact hp)) _ _

theorem ffr_bind {m : M α} {f : α → M β} (hm : FFrame C m) (hf : ∀ a, FFrame C (f a)) :
    FFrame C (m >>= f) := by
  intro st k hk
  rw [bind_apply]
  have h1 := hm st k hk
  cases hr : m st with
  | mk r s' =>
    rw [hr] at h1
    cases r with
    | ok a => exact ((hf a s') k hk).trans h1
    | err k => exact h1
    | panic => exact h1
    | hang => exact h1

theorem ffr_forM {γ : Type} (l : List γ) (f : γ → M PUnit) (h : ∀ a ∈ l, FFrame C (f a)) :
    FFrame C (l.forM f) := by
  induction l with
  | nil => exact ffr_pure _
  | cons a r ih =>
    show FFrame C (f a >>= fun _ => r.forM f)
    exact ffr_bind (h a (by simp)) (fun _ => ih (fun b hb => h b (List.mem_cons_of_mem _ hb)))

end

macro "ffr_step" : tactic => `(tactic| first
  | exact ffr_pure _ | exact ffr_mpure _ | exact ffr_fail _ | exact ffr_liftO _
  | exact ffr_getEntry _ | exact ffr_getFile _ | exact ffr_dirOf _ | exact ffr_setEntry _ _
  | (apply ffr_setFile; assumption)
  | (refine ffr_bind ?_ (fun _ => ?_))
  | split)

/-- `_add` can write data only under the new key … -/
theorem ffr_add {C : FsPath → Prop} (e : Entry) (h1 : C e.path) : FFrame C (add e) := by
  unfold add
  simp only []
  repeat ffr_step

/-- … and only when the entry is a regular file -/
theorem ffr_add_nofile {C : FsPath → Prop} (e : Entry) (h : (!e.link && e.file) = false) :
    FFrame C (add e) := by
  unfold add
  simp only [h, Bool.false_eq_true, if_false]
  repeat ffr_step

theorem ffr_mkdirM {C : FsPath → Prop} (p : FsPath) (mode : Option Nat) : FFrame C (mkdirM p mode) := by
  unfold mkdirM
  apply ffr_forM
  intro q _
  exact ffr_bind (ffr_add_nofile _ rfl) (fun _ => ffr_pure _)

theorem ffr_symlinkAbs {C : FsPath → Prop} (l t : FsPath) : FFrame C (symlinkAbs l t) := by
  unfold symlinkAbs
  refine ffr_bind (ffr_getEntry _) (fun o => ?_)
  split
  · exact ffr_fail _
  · refine ffr_bind (ffr_dirOf _) (fun ldir => ?_)
    refine ffr_bind (ffr_getEntry _) (fun o2 => ?_)
    exact ffr_bind (ffr_add_nofile _ rfl) (fun _ => ffr_pure _)

theorem ffr_dirOf_bind {β : Type} {C : FsPath → Prop} {p : FsPath} {f : FsPath → M β}
    (h : p ≠ [] → FFrame C (f p.dropLast)) : FFrame C (dirOf p >>= f) := by
  by_cases hp : p = []
  · subst hp; rw [dirOf_nil, fail_bind]; exact ffr_fail _
  · rw [dirOf_ne_nil hp, mpure_bind]; exact h hp

/-- the per-entry body of `_copy` can change the data of ONE key only: the destination of the entry
    (any options, any outcome) -/
theorem ffr_copyStep {dk rootPath K : FsPath} {c : CopyOpts} {ci : Bool} (e : Entry)
    (hD : ∀ pre, (if ci = true then rootPath ≠ [] ∧ pre = rootPath.dropLast else pre = rootPath) →
      dstOf dk e.path pre = K) :
    FFrame (· = K) (copyStep dk c ci rootPath e) := by
  unfold copyStep
  extract_lets dm fm d body
  clear_value dm fm
  have key : ∀ pre, dstOf dk e.path pre = K → FFrame (· = K) (d pre) := by
    intro pre hr
    simp -zeta only [d]
    extract_lets dstPath jp1
    have h1 : dstPath = K := hr
    split
    · exact ffr_bind (ffr_symlinkAbs _ _) (fun _ => ffr_pure _)
    · refine ffr_bind (ffr_getEntry _) (fun lift => ?_)
      have hjp1 : ∀ srcE, FFrame (· = K) (jp1 srcE) := by
        intro srcE
        simp -zeta only [jp1]
        split
        · exact ffr_mkdirM _ _
        · refine ffr_dirOf_bind (fun _ => ?_)
          refine ffr_bind (ffr_getEntry _) (fun lift2 => ?_)
          extract_lets dstE jpA jpB jpC jpD
          have hA : ∀ u, FFrame (· = K) (jpA u) := by
            intro u
            simp -zeta only [jpA]
            refine ffr_bind (ffr_getFile _) (fun lift4 => ?_)
            split
            · exact ffr_setFile (C := (· = K)) (p := dstPath) h1 _
            · exact ffr_fail _
          have hB : ∀ u, FFrame (· = K) (jpB u) := by
            intro u
            simp -zeta only [jpB]
            split
            · exact ffr_bind (ffr_fail _) (fun r => hA r)
            · exact hA ()
          have hC : ∀ u, FFrame (· = K) (jpC u) := by
            intro u
            simp -zeta only [jpC]
            refine ffr_bind (ffr_add (C := (· = K)) dstE h1) (fun _ => ?_)
            split
            · refine ffr_bind (ffr_getFile _) (fun lift3 => ?_)
              split
              · exact ffr_bind (ffr_fail _) (fun r => hB r)
              · exact hB ()
            · exact ffr_pure _
          have hD' : ∀ pm, FFrame (· = K) (jpD pm) := by
            intro pm
            simp -zeta only [jpD]
            exact ffr_bind (ffr_mkdirM _ _) (fun r => hC r)
          split
          · split
            · exact ffr_bind (ffr_mpure _) (fun pm => hD' pm)
            · refine ffr_bind (ffr_dirOf _) (fun sd => ?_)
              refine ffr_bind (ffr_getEntry _) (fun lift5 => ?_)
              split
              · exact ffr_bind (ffr_mpure _) (fun pm => hD' pm)
              · exact ffr_bind (ffr_fail _) (fun pm => hD' pm)
          · exact hC ()
      split
      · exact ffr_bind (ffr_mpure _) (fun x => hjp1 x)
      · exact ffr_bind (ffr_fail _) (fun x => hjp1 x)
  show FFrame (· = K) body
  simp -zeta only [body]
  cases ci with
  | true =>
    simp only [if_true]
    by_cases hr : rootPath = []
    · subst hr
      rw [dirOf_nil, fail_bind]
      exact ffr_fail _
    · rw [dirOf_ne_nil hr, mpure_bind]
      exact key _ (hD _ (by simp [hr]))
  | false =>
    simp only [Bool.false_eq_true, if_false, mpure_bind]
    exact key _ (hD _ (by simp))


/-! ### a successful step on a regular file: the destination key receives the source bytes -/

theorem bind_ok_inv {α β : Type} {m : M α} {f : α → M β} {s s' : State} {b : β}
    (h : (m >>= f) s = (.ok b, s')) : ∃ a s1, m s = (.ok a, s1) ∧ f a s1 = (.ok b, s') := by
  rw [bind_apply] at h
  cases hr : m s with
  | mk r s1 =>
    rw [hr] at h
    cases r with
    | ok a => exact ⟨a, s1, rfl, h⟩
    | err k => cases h
    | panic => cases h
    | hang => cases h

/-- the tail of the file branch of the loop body, from `_add` on -/
def fileTail (K : FsPath) (x : Entry) (fm : Option Nat) : M Unit := do
  let _ ← add (({ x with path := K } : Entry).setMode (fm.getD x.mode))
  if !x.link then
    if (← getFile K).isNone then fail .isNotFile
    if !x.file then fail .isNotFile
    match (← getFile x.path) with
    | some b => setFile K b
    | none => fail .doesNotExist

theorem fileTail_ok {K : FsPath} {x : Entry} {fm : Option Nat} {st st' : State}
    (hxl : x.link = false) (hxp : x.path ≠ K)
    (h : fileTail K x fm st = (.ok (), st')) :
    alLookup K st'.files = alLookup x.path st.files ∧ (alLookup x.path st.files).isSome := by
  unfold fileTail at h
  obtain ⟨a, s1, hadd, h⟩ := bind_ok_inv h
  have hfr := ffr_add (C := (· = K)) (({ x with path := K } : Entry).setMode (fm.getD x.mode)) rfl st
    x.path hxp
  rw [hadd] at hfr
  simp only [hxl, Bool.not_false, if_true, getFile_bind_apply] at h
  simp only at hfr
  split at h
  · simp only [fail_bind] at h; cases h
  · split at h
    · simp only [fail_bind] at h; cases h
    · simp only [getFile_bind_apply] at h
      cases hb : alLookup x.path s1.files with
      | none => rw [hb] at h; cases h
      | some b =>
        rw [hb] at h
        simp only [setFile_apply] at h
        cases h
        rw [← hfr, hb]
        exact ⟨alLookup_alInsert_self _ _ _, rfl⟩

theorem copyStep_file_ok {dk rootPath pre K : FsPath} {c : CopyOpts} {ci : Bool} {st st' : State}
    {e x : Entry} (hfollow : c.follow = false)
    (hpre : if ci = true then rootPath ≠ [] ∧ pre = rootPath.dropLast else pre = rootPath)
    (hD : dstOf dk e.path pre = K) (hlink : e.link = false)
    (he : alLookup e.path st.entries = some x) (hxd : x.dir = false) (hxl : x.link = false)
    (hxp : x.path ≠ K)
    (h : copyStep dk c ci rootPath e st = (.ok (), st')) :
    alLookup K st'.files = alLookup x.path st.files ∧ (alLookup x.path st.files).isSome := by
  have hlink' : (e.link = true) = False := by simp [hlink]
  have hdir' : (x.dir = true) = False := by simp [hxd]
  have key : ∀ (pm : M Unit), FFrame (· = K) pm →
      (pm >>= fun _ => fileTail K x (copyFileMode c)) st = (.ok (), st') →
      alLookup K st'.files = alLookup x.path st.files ∧ (alLookup x.path st.files).isSome := by
    intro pm hpm hrun
    obtain ⟨u, s1, h1, h2⟩ := bind_ok_inv hrun
    have hfr := hpm st x.path hxp
    rw [h1] at hfr
    simp only at hfr
    rw [← hfr]
    exact fileTail_ok hxl hxp h2
  unfold copyStep at h
  cases ci with
  | true =>
    simp only [if_true] at hpre
    obtain ⟨h1, h2⟩ := hpre
    rw [h2] at hD
    simp only [if_true, dirOf_ne_nil h1, mpure_bind, hD, hfollow, hlink', Bool.not_false,
      Bool.false_eq_true, and_false, if_false, getEntry_bind_apply, he, hdir'] at h
    by_cases hK : K = []
    · subst hK
      simp only [dirOf_nil, fail_bind] at h
      cases h
    · simp only [dirOf_ne_nil hK, mpure_bind, getEntry_bind_apply] at h
      cases hpar : alLookup K.dropLast st.entries with
      | some pe =>
        simp only [hpar, Option.isNone_some, Bool.false_eq_true, if_false] at h
        exact key (M.pure ()) (ffr_mpure _) h
      | none =>
        simp only [hpar, Option.isNone_none, if_true] at h
        cases hdm : copyDirMode c with
        | some pm =>
          simp only [hdm] at h
          exact key (mkdirM K.dropLast (some pm)) (ffr_mkdirM _ _) h
        | none =>
          simp only [hdm] at h
          by_cases hxp0 : x.path = []
          · simp only [hxp0, dirOf_nil, fail_bind] at h
            cases h
          · simp only [dirOf_ne_nil hxp0, mpure_bind, getEntry_bind_apply] at h
            cases hsp : alLookup x.path.dropLast st.entries with
            | some y =>
              simp only [hsp] at h
              exact key (mkdirM K.dropLast (some y.mode)) (ffr_mkdirM _ _) h
            | none =>
              simp only [hsp, fail_bind] at h
              cases h
  | false =>
    simp only [Bool.false_eq_true, if_false] at hpre
    rw [hpre] at hD
    simp only [Bool.false_eq_true, if_false, mpure_bind, hD, hfollow, hlink', Bool.not_false,
      and_false, getEntry_bind_apply, he, hdir'] at h
    by_cases hK : K = []
    · subst hK
      simp only [dirOf_nil, fail_bind] at h
      cases h
    · simp only [dirOf_ne_nil hK, mpure_bind, getEntry_bind_apply] at h
      cases hpar : alLookup K.dropLast st.entries with
      | some pe =>
        simp only [hpar, Option.isNone_some, Bool.false_eq_true, if_false] at h
        exact key (M.pure ()) (ffr_mpure _) h
      | none =>
        simp only [hpar, Option.isNone_none, if_true] at h
        cases hdm : copyDirMode c with
        | some pm =>
          simp only [hdm] at h
          exact key (mkdirM K.dropLast (some pm)) (ffr_mkdirM _ _) h
        | none =>
          simp only [hdm] at h
          by_cases hxp0 : x.path = []
          · simp only [hxp0, dirOf_nil, fail_bind] at h
            cases h
          · simp only [dirOf_ne_nil hxp0, mpure_bind, getEntry_bind_apply] at h
            cases hsp : alLookup x.path.dropLast st.entries with
            | some y =>
              simp only [hsp] at h
              exact key (mkdirM K.dropLast (some y.mode)) (ffr_mkdirM _ _) h
            | none =>
              simp only [hsp, fail_bind] at h
              cases h

/-! ### a step on a directory or a link writes no data -/

theorem copyStep_nofile_keeps {dk rootPath : FsPath} {c : CopyOpts} {ci : Bool} {st : State} {e : Entry}
    (hfollow : c.follow = false)
    (he : alLookup e.path st.entries = some e) (hk : e.link = true ∨ e.dir = true) (q : FsPath) :
    alLookup q (copyStep dk c ci rootPath e st).2.files = alLookup q st.files := by
  cases hl : e.link with
  | true =>
    have hl' : (e.link = true) = True := by simp [hl]
    unfold copyStep
    cases ci with
    | true =>
      by_cases hr : rootPath = []
      · subst hr
        simp only [if_true, dirOf_nil, fail_bind]
        rfl
      · simp only [if_true, dirOf_ne_nil hr, mpure_bind, hfollow, hl', Bool.not_false, and_self, if_true]
        exact (ffr_bind (C := fun _ => False) (ffr_symlinkAbs _ _) (fun _ => ffr_pure _)) st q (fun h : False => h)
    | false =>
      simp only [Bool.false_eq_true, if_false, mpure_bind, hfollow, hl', Bool.not_false, and_self, if_true]
      exact (ffr_bind (C := fun _ => False) (ffr_symlinkAbs _ _) (fun _ => ffr_pure _)) st q (fun h : False => h)
  | false =>
    have hd : e.dir = true := by
      rcases hk with h | h
      · rw [hl] at h; cases h
      · exact h
    have hl' : (e.link = true) = False := by simp [hl]
    have hd' : (e.dir = true) = True := by simp [hd]
    unfold copyStep
    cases ci with
    | true =>
      by_cases hr : rootPath = []
      · subst hr
        simp only [if_true, dirOf_nil, fail_bind]
        rfl
      · simp only [if_true, dirOf_ne_nil hr, mpure_bind, hfollow, hl', Bool.not_false, and_false, if_false,
          getEntry_bind_apply, he, hd']
        exact ffr_mkdirM (C := fun _ => False) _ _ st q (fun h : False => h)
    | false =>
      simp only [Bool.false_eq_true, if_false, mpure_bind, hfollow, hl', Bool.not_false, and_false,
        getEntry_bind_apply, he, hd', if_true]
      exact ffr_mkdirM (C := fun _ => False) _ _ st q (fun h : False => h)

/-! ### the copy loop, seen from the data map -/

theorem dstOf_copyDst {s : State} {sk dk r pre : FsPath} (hdk : WfKey dk) (hwsk : WfKey sk) (hr : WfKey r)
    (hpre : if isDirP s dk = true then sk ≠ [] ∧ pre = sk.dropLast else pre = sk) :
    dstOf dk (sk ++ r) pre = copyDst s sk dk ++ r := by
  unfold copyDst
  cases hci : isDirP s dk with
  | false =>
    rw [hci] at hpre
    simp only [Bool.false_eq_true, if_false] at hpre ⊢
    rw [hpre]; exact dstOf_append hdk hr
  | true =>
    rw [hci] at hpre
    simp only [if_true] at hpre ⊢
    obtain ⟨hskne, hpre⟩ := hpre
    have h1 : sk ++ r = sk.dropLast ++ ([baseName sk] ++ r) := by
      rw [← List.append_assoc, dropLast_append_baseName hskne]
    have h2 : WfKey ([baseName sk] ++ r) :=
      WfKey.append (by intro n hn; simp at hn; subst hn; exact hwsk _ (baseName_mem hskne)) hr
    rw [hpre, h1, dstOf_append hdk h2, List.append_assoc]

/-- the setting of the tree-content theorem: invariant, well-formed names, no-follow, and the
    destination root `D = copyDst s sk dk` neither at/below the source nor above it (all decidable) -/
structure CCtx (s : State) (sk dk : FsPath) (c : CopyOpts) : Prop where
  hi : InvF s
  hk : KeysWf s
  hdk : WfKey dk
  hfollow : c.follow = false
  h1 : ¬ sk <+: copyDst s sk dk
  h2 : ¬ copyDst s sk dk <+: sk

theorem CCtx.skne {s : State} {sk dk : FsPath} {c : CopyOpts} (h : CCtx s sk dk c) : sk ≠ [] := by
  intro e; exact h.h1 (e ▸ List.nil_prefix)

theorem CCtx.incmp {s : State} {sk dk : FsPath} {c : CopyOpts} (h : CCtx s sk dk c) (r : FsPath) :
    ¬ Cmp (copyDst s sk dk) (sk ++ r) := by
  rintro (hc | hc)
  · exact h.h1 ((List.prefix_append sk r).trans hc)
  · rcases List.prefix_or_prefix_of_prefix hc (List.prefix_append sk r) with h' | h'
    · exact h.h2 h'
    · exact h.h1 h'

theorem CCtx.ne {s : State} {sk dk : FsPath} {c : CopyOpts} (h : CCtx s sk dk c) (r r' : FsPath) :
    sk ++ r ≠ copyDst s sk dk ++ r' := by
  intro e
  exact h.incmp r (Or.inr ⟨r', e.symm⟩)

/-- state `σ` after the entries `Ld` of the source subtree have been processed, data map only -/
structure CInv (s : State) (sk D : FsPath) (σ : State) (Ld : List Entry) : Prop where
  frame : ∀ k, ¬ Cmp D k →
    alLookup k σ.entries = alLookup k s.entries ∧ alLookup k σ.files = alLookup k s.files
  other : ∀ q, (∀ r e, e ∈ Ld → e.path = sk ++ r → e.dir = false → e.link = false → q ≠ D ++ r) →
    alLookup q σ.files = alLookup q s.files
  done : ∀ r e, e ∈ Ld → e.path = sk ++ r → e.dir = false → e.link = false →
    alLookup (D ++ r) σ.files = alLookup (sk ++ r) s.files

theorem cinv_init (s : State) (sk D : FsPath) : CInv s sk D s [] :=
  ⟨fun _ _ => ⟨rfl, rfl⟩, fun _ _ => rfl, fun _ _ he => by simp at he⟩

theorem cinv_step {s : State} {sk dk : FsPath} {c : CopyOpts} (ctx : CCtx s sk dk c)
    {σ σ' : State} {Ld : List Entry} {e : Entry} {r : FsPath}
    (hinv : CInv s sk (copyDst s sk dk) σ Ld)
    (he : alLookup (sk ++ r) s.entries = some e)
    (hnew : ∀ e0 ∈ Ld, e0.path ≠ sk ++ r)
    (hstep : copyStep dk c (isDirP s dk) sk e σ = (.ok (), σ')) :
    CInv s sk (copyDst s sk dk) σ' (Ld ++ [e]) := by
  have hp : e.path = sk ++ r := ctx.hi.path _ _ he
  have hwr : WfKey r := (ctx.hk.key he).right
  have hwsk : WfKey sk := (ctx.hk.key he).left
  have hfr := hinv.frame _ (ctx.incmp r)
  have heσ : alLookup e.path σ.entries = some e := by rw [hp, hfr.1]; exact he
  have hDK : ∀ pre, (if isDirP s dk = true then sk ≠ [] ∧ pre = sk.dropLast else pre = sk) →
      dstOf dk e.path pre = copyDst s sk dk ++ r := by
    intro pre hpre; rw [hp]; exact dstOf_copyDst ctx.hdk hwsk hwr hpre
  have hff := ffr_copyStep (c := c) e hDK σ
  have hfE := frame_copyStep (c := c) e (fun pre hpre => ⟨r, hDK pre hpre⟩) σ
  rw [hstep] at hff hfE
  simp only at hff hfE
  have hinj : ∀ r0, r0 ≠ r → copyDst s sk dk ++ r0 ≠ copyDst s sk dk ++ r :=
    fun r0 h0 h => h0 (List.append_cancel_left h)
  refine ⟨?_, ?_, ?_⟩
  · intro k hk
    exact ⟨((hfE.1 k hk).1).trans (hinv.frame k hk).1, ((hfE.1 k hk).2).trans (hinv.frame k hk).2⟩
  · intro q hq
    have hold : ∀ r0 e0, e0 ∈ Ld → e0.path = sk ++ r0 → e0.dir = false → e0.link = false →
        q ≠ copyDst s sk dk ++ r0 :=
      fun r0 e0 h0 => hq r0 e0 (List.mem_append_left _ h0)
    by_cases hqK : q = copyDst s sk dk ++ r
    · have hk : e.link = true ∨ e.dir = true := by
        cases hl : e.link with
        | true => exact Or.inl rfl
        | false =>
          cases hd : e.dir with
          | true => exact Or.inr rfl
          | false => exact absurd hqK (hq r e (by simp) hp hd hl)
      have := copyStep_nofile_keeps (dk := dk) (rootPath := sk) (c := c) (ci := isDirP s dk)
        ctx.hfollow heσ hk q
      rw [hstep] at this
      exact this.trans (hinv.other q hold)
    · exact (hff q hqK).trans (hinv.other q hold)
  · intro r0 e0 he0 hp0 hd0 hl0
    rcases List.mem_append.1 he0 with he0 | he0
    · have hr0 : r0 ≠ r := by
        intro h; subst h; exact hnew e0 he0 hp0
      exact (hff _ (hinj r0 hr0)).trans (hinv.done r0 e0 he0 hp0 hd0 hl0)
    · simp only [List.mem_singleton] at he0
      subst he0
      have hr0 : r0 = r := List.append_cancel_left (hp0.symm.trans hp)
      subst hr0
      have hpre : if isDirP s dk = true then sk ≠ [] ∧
          (if isDirP s dk = true then sk.dropLast else sk) = sk.dropLast
          else (if isDirP s dk = true then sk.dropLast else sk) = sk := by
        cases isDirP s dk <;> simp [ctx.skne]
      have hxp : e0.path ≠ copyDst s sk dk ++ r0 := by rw [hp]; exact ctx.ne r0 r0
      have := (copyStep_file_ok ctx.hfollow hpre (hDK _ hpre) hl0 heσ hd0 hl0 hxp hstep).1
      rw [this, hp]
      exact hfr.2

theorem runList_ok_cons {σ : Type} {step : Entry → σ → Outcome Unit × σ} {e : Entry} {es : List Entry}
    {w w' : σ} (h : runList step (e :: es) w = (.ok (), w')) :
    ∃ w1, step e w = (.ok (), w1) ∧ runList step es w1 = (.ok (), w') := by
  rw [runList] at h
  cases hs : step e w with
  | mk r w1 =>
    rw [hs] at h
    cases r with
    | ok u => cases u; exact ⟨w1, rfl, h⟩
    | err k => cases h
    | panic => cases h
    | hang => cases h

/-- the whole loop, when it succeeds -/
theorem runList_content {s : State} {sk dk : FsPath} {c : CopyOpts} (ctx : CCtx s sk dk c)
    {L : List Entry} (hL : PreOrder s sk L) {σ' : State} :
    ∀ (Lr Ld : List Entry) (σ : State), L = Ld ++ Lr →
      CInv s sk (copyDst s sk dk) σ Ld →
      runList (copyStep dk c (isDirP s dk) sk) Lr σ = (.ok (), σ') →
      CInv s sk (copyDst s sk dk) σ' L := by
  intro Lr
  induction Lr with
  | nil =>
    intro Ld σ hsplit hinv hrun
    rw [List.append_nil] at hsplit
    rw [runList] at hrun
    cases hrun
    exact hsplit ▸ hinv
  | cons e Lr ih =>
    intro Ld σ hsplit hinv hrun
    have heL : e ∈ L := by rw [hsplit]; simp
    obtain ⟨r, hp, he⟩ := hL.mem_src e heL
    have hnd := hL.nodup
    rw [hsplit, List.map_append, List.map_cons, List.nodup_append] at hnd
    have hnew : ∀ e0 ∈ Ld, e0.path ≠ sk ++ r := by
      intro e0 he0 h
      exact hnd.2.2 e0.path (List.mem_map.2 ⟨e0, he0, rfl⟩) e.path (by simp) (h.trans hp.symm)
    obtain ⟨σ1, hstep, hrest⟩ := runList_ok_cons hrun
    exact ih (Ld ++ [e]) σ1 (by rw [hsplit]; simp) (cinv_step ctx hinv he hnew hstep) hrest

/-! ### the whole `copy` -/

theorem copyDst_prefix_self (s : State) (sk : FsPath) : sk <+: copyDst s sk sk := by
  unfold copyDst
  split
  · exact List.prefix_append _ _
  · exact List.prefix_refl _

/-- **content after a successful no-follow `copy`** (any source: a file or a whole tree, links
    included; any destination: free, an existing file, an existing directory; any `CopyOpts` with
    `follow = false`): with `D = copyDst s sk dk`,
    * every regular file `sk ++ r` of the source subtree has its bytes at `D ++ r`,
    * every key that is not such a `D ++ r` keeps its bytes (in particular the whole source). -/
theorem copyM_content {env : Env} {a b : Str} {c : CopyOpts} {s s' : State} {sk dk : FsPath}
    (hinv : Spec.Inv s) (hs : Snap.Sorted s.entries) (hd : Snap.DepthOk s)
    (ctx : CCtx s sk dk c)
    (ha : absM env a s = (.ok sk, s)) (hb : absM env b s = (.ok dk, s))
    (hrun : copyM env a b c s = (.ok (), s')) :
    (∀ r e, alLookup (sk ++ r) s.entries = some e → e.dir = false → e.link = false →
      alLookup (copyDst s sk dk ++ r) s'.files = alLookup (sk ++ r) s.files) ∧
    (∀ q, (∀ r e, alLookup (sk ++ r) s.entries = some e → e.dir = false → e.link = false →
        q ≠ copyDst s sk dk ++ r) → alLookup q s'.files = alLookup q s.files) := by
  have hi := ctx.hi
  have hne : sk ≠ dk := by
    intro e; subst e; exact ctx.h1 (copyDst_prefix_self s sk)
  cases hsrc : alLookup sk s.entries with
  | none =>
    exfalso
    unfold copyM at hrun
    rw [bind_ok ha, bind_ok hb] at hrun
    simp [hne, hsrc] at hrun
  | some rootE =>
    obtain ⟨snap, hent, hwf, hr, hso, _⟩ := Snap.snapshot_correct_core hinv hs hsrc
    have hp : rootE.path = sk := hi.path sk rootE hsrc
    obtain ⟨f1, f2, f3, f4⟩ := Snap.copyOpts_facts
    have hL := Snap.preOrder_walk hinv hd hwf hr hso hp
    have hent' : entriesOf s (rootE.doFollow c.follow).path = .ok (rootE, snap) := by
      rw [ctx.hfollow, doFollow_false, hp]; exact hent
    rw [copyM_resolved ha hb hne hsrc hent', ctx.hfollow, doFollow_false, hp,
      Snap.runIter_walk hwf f1 f2 f3 f4 hr] at hrun
    have hfin := runList_content ctx hL _ [] s (by simp) (cinv_init s sk _) hrun
    refine ⟨?_, ?_⟩
    · intro r e he hd0 hl0
      exact hfin.done r e (hL.complete r e he) (hi.path _ _ he) hd0 hl0
    · intro q hq
      apply hfin.other q
      intro r e heL hpe hd0 hl0
      obtain ⟨r', hp', hl'⟩ := hL.mem_src e heL
      have : r' = r := List.append_cancel_left (hp'.symm.trans hpe)
      subst this
      exact hq r' e hl' hd0 hl0

/-! ### `write_all` / `append_all` touch the data of the key they resolve to only -/

theorem ffr_syncM (p : FsPath) (d : File.Bytes) : FFrame (· = p) (syncM p d) := by
  unfold syncM
  refine ffr_bind (ffr_getEntry _) (fun o => ?_)
  split
  · refine ffr_bind (ffr_getFile _) (fun o2 => ?_)
    split
    · exact ffr_setFile (C := (· = p)) (p := p) rfl _
    · exact ffr_mpure _
  · exact ffr_fail _

theorem ffr_ignore {α : Type} {C : FsPath → Prop} {m : M α} (h : FFrame C m) :
    FFrame C (fun s => let (_, s') := m s; ((.ok () : Outcome Unit), s')) := by
  intro st k hk
  have := h st k hk
  cases hm : m st with
  | mk r s' =>
    rw [hm] at this
    show alLookup k (match m st with | (_, s') => ((.ok () : Outcome Unit), s')).2.files = _
    rw [hm]; exact this

theorem bind_not_ok_snd {α β : Type} {m : M α} {f : α → M β} {s : State} {r : Outcome α}
    (h : m s = (r, s)) (hr : ∀ a, r ≠ .ok a) : ((m >>= f) s).2 = s := by
  obtain ⟨r', h', _⟩ := bind_not_ok (f := f) h hr
  rw [h']

theorem writeAllM_files (env : Env) (p : Str) (d : File.Bytes) (s : State) (q : FsPath)
    (hq : ∀ k, absM env p s = (.ok k, s) → q ≠ k) :
    alLookup q (writeAllM env p d s).2.files = alLookup q s.files := by
  unfold writeAllM
  rcases absM_cases env p s with ⟨k, ha⟩ | ⟨r, ha, hr⟩
  · rw [bind_ok ha]
    have hF : FFrame (· = k) (add (mkFileEntry k) >>= fun _ => getFile k >>= fun o =>
        if o.isNone = true then fail .isNotFile
        else fun s => let (_, s') := syncM k d s; ((.ok () : Outcome Unit), s')) := by
      refine ffr_bind (ffr_add (C := (· = k)) _ rfl) (fun _ => ffr_bind (ffr_getFile _) (fun o => ?_))
      split
      · exact ffr_fail _
      · exact ffr_ignore (ffr_syncM k d)
    exact hF s q (hq k ha)
  · rw [bind_not_ok_snd ha hr]

theorem appendAllM_files (env : Env) (p : Str) (d : File.Bytes) (s : State) (q : FsPath)
    (hq : ∀ k, absM env p s = (.ok k, s) → q ≠ k) :
    alLookup q (appendAllM env p d s).2.files = alLookup q s.files := by
  unfold appendAllM
  rcases absM_cases env p s with ⟨k, ha⟩ | ⟨r, ha, hr⟩
  · rw [bind_ok ha]
    have hF : FFrame (· = k) (add (mkFileEntry k) >>= fun _ => getFile k >>= fun o =>
        match o with
        | some b => (syncM k (b ++ d) >>= fun _ =>
            fun s => let (_, s') := syncM k (b ++ d) s; ((.ok () : Outcome Unit), s'))
        | none => fail .doesNotExist) := by
      refine ffr_bind (ffr_add (C := (· = k)) _ rfl) (fun _ => ffr_bind (ffr_getFile _) (fun o => ?_))
      split
      · exact ffr_bind (ffr_syncM k _) (fun _ => ffr_ignore (ffr_syncM k _))
      · exact ffr_fail _
    exact hF s q (hq k ha)
  · rw [bind_not_ok_snd ha hr]

/-- at `step` level -/
theorem step_write_files (env : Env) (s : State) (p : Str) (d : File.Bytes) (q : FsPath)
    (hq : ∀ k, absM env p s = (.ok k, s) → q ≠ k) :
    alLookup q (step env s (.writeAll p d)).2.files = alLookup q s.files ∧
    alLookup q (step env s (.appendAll p d)).2.files = alLookup q s.files := by
  constructor
  · rw [show (step env s (.writeAll p d)).2 = (writeAllM env p d s).2 from mapVal_snd _ _ _]
    exact writeAllM_files env p d s q hq
  · rw [show (step env s (.appendAll p d)).2 = (appendAllM env p d s).2 from mapVal_snd _ _ _]
    exact appendAllM_files env p d s q hq

end Rivia.Lemmas.CT
