/-
  Rivia.Lemmas.AbsWf — `Memfs::_abs` only ever returns (renderings of) well-formed keys: no empty
  name, no `/` inside a name, no `.` / `..` component — provided the cwd is such a key.
-/
import Rivia.Lemmas.CopyMove

namespace Rivia.Lemmas
open Rivia Rivia.Str Rivia.Memfs Rivia.Spec

/-! ### `abs` returns a well-formed key -/

theorem dotdot_run {ps : List Str}
    (h : ps.Pairwise (fun a b => b = dotdot → a = dotdot)) :
    ∃ j qs, ps = List.replicate j dotdot ++ qs ∧ ∀ q ∈ qs, q ≠ dotdot := by
  induction ps with
  | nil => exact ⟨0, [], rfl, by simp⟩
  | cons a rest ih =>
    rw [List.pairwise_cons] at h
    obtain ⟨j, qs, hrest, hqs⟩ := ih h.2
    by_cases ha : a = dotdot
    · exact ⟨j + 1, qs, by rw [hrest, ha, List.replicate_succ]; rfl, hqs⟩
    · have hj : j = 0 := by
        cases j with
        | zero => rfl
        | succ j =>
          exfalso
          apply ha
          apply h.1 dotdot _ rfl
          rw [hrest, List.replicate_succ]; simp
      subst hj
      refine ⟨0, a :: qs, by rw [hrest]; rfl, ?_⟩
      intro q hq
      rcases List.mem_cons.1 hq with rfl | hq
      · exact ha
      · exact hqs q hq

theorem mem_bodyPieces_not_slash {t p : Str} (h : p ∈ bodyPieces t) : '/' ∉ p := by
  unfold bodyPieces at h
  split at h
  · exact not_mem_of_mem_splitOn '/' t p (List.mem_of_mem_drop h)
  · exact not_mem_of_mem_splitOn '/' t p h

theorem renderP_nil : renderP [] = ['/'] := rfl

theorem renderP_ne_root {K : FsPath} (hK : WfKey K) (hne : K ≠ []) : renderP K ≠ ['/'] := by
  intro h
  have := toPath_renderP hK
  rw [h] at this
  have h2 : toPath ['/'] = [] := by decide
  rw [h2] at this
  exact hne this.symm

theorem dir_renderP_snoc {K : FsPath} {t : Str} (h : WfKey (K ++ [t])) :
    dir (renderP (K ++ [t])) = .ok (renderP K) := by
  have hb : ∀ q ∈ K ++ [t], BodyPiece q := h.bodyPiece
  have hbody : ∀ q ∈ K ++ [t], isBody q = true :=
    fun q hq => isBody_eq_true (hb q hq).1 (hb q hq).2.1
  have hsplit := splitSlash_bufOf (rooted := true) (ps := K ++ [t]) (by simp) hb
  have hroot := isRooted_bufOf (rooted := true) hb
  have := parentStr_of_split (s := bufOf true (K ++ [t])) (p0 := []) (mid := K) (top := t)
    (by simpa using hsplit) (fun x hx => hbody x (by simp [hx])) (hbody t (by simp))
  unfold dir
  rw [renderP_eq_bufOf, this, hroot]
  by_cases hK : K = []
  · subst hK; simp [renderP, joinWith]
  · simp [hK, renderP, joinWith_cons_of_ne_nil '/' [] hK]

theorem trimFirst_bufOf_cons {x : Str} {rest : List Str} (h : ∀ q ∈ x :: rest, BodyPiece q) :
    trimFirst (bufOf false (x :: rest)) = bufOf false rest := by
  have hsplit := splitSlash_bufOf (rooted := false) (ps := x :: rest) (by simp) h
  have hall : ∀ q ∈ rest, (fun p => !isBody p) q = false := by
    intro q hq
    have := h q (List.mem_cons_of_mem _ hq)
    simp [isBody_eq_true this.1 this.2.1]
  unfold trimFirst
  rw [hsplit]
  simp only [Bool.false_eq_true, if_false, List.nil_append]
  have h1 : rest.dropWhile (fun p => !isBody p) = rest := by
    cases rest with
    | nil => rfl
    | cons a r =>
      have := hall a (by simp)
      simp only at this
      rw [List.dropWhile_cons, this]; rfl
  rw [h1, dropTrailing_of_all_false _ hall]
  simp [bufOf]

/-- the `.`/`..` walk of `_abs` only ever returns rendered well-formed keys -/
theorem absLoop_wf {a : Str} : ∀ (f : Nat) (K : FsPath) (j : Nat) (qs : List Str),
    WfKey K → WfKey qs →
    absLoop f (renderP K) (bufOf false (List.replicate j dotdot ++ qs)) = .ok a →
    ∃ K', WfKey K' ∧ a = renderP K' := by
  intro f
  induction f with
  | zero =>
    intro K j qs hK _ h
    rw [absLoop] at h
    cases h
    exact ⟨K, hK, rfl⟩
  | succ f ih =>
    intro K j qs hK hqs h
    have hps : ∀ q ∈ List.replicate j dotdot ++ qs, BodyPiece q := by
      intro q hq
      rcases List.mem_append.1 hq with hq | hq
      · rw [(List.mem_replicate.1 hq).2]; exact bodyPiece_dotdot
      · exact (hqs q hq).bodyPiece
    rw [absLoop, components_bufOf hps] at h
    simp only [Bool.false_eq_true, if_false, List.nil_append] at h
    cases j with
    | succ j =>
      have hdd : bodyComp dotdot = some .parent := by decide
      simp only [List.replicate_succ, List.cons_append, List.filterMap_cons, hdd, List.head?_cons] at h
      split at h
      · cases h
      · rename_i hne
        rcases eq_nil_or_snoc K with rfl | ⟨K0, t, rfl⟩
        · exact absurd renderP_nil hne
        · rw [dir_renderP_snoc hK] at h
          simp only at h
          rw [trimFirst_bufOf_cons (by simpa [List.replicate_succ] using hps)] at h
          exact ih K0 j qs hK.left hqs h
    | zero =>
      simp only [List.replicate_zero, List.nil_append] at h
      cases qs with
      | nil =>
        simp only [List.filterMap_nil, List.head?_nil] at h
        cases h
        exact ⟨K, hK, rfl⟩
      | cons q qs' =>
        have hq := hqs q (by simp)
        simp only [List.filterMap_cons, bodyComp_of_wf hq, List.head?_cons] at h
        cases h
        refine ⟨K ++ (q :: qs'), hK.append hqs, ?_⟩
        exact mash_renderP_rel hK hqs (by simp)

/-- **`Memfs::_abs` returns the rendering of a well-formed key** whenever the cwd is one -/
theorem absWith_wf {env : Env} {K : FsPath} {s a : Str} (hK : WfKey K)
    (h : absWith env (renderP K) s = .ok a) : ∃ K', WfKey K' ∧ a = renderP K' := by
  unfold absWith at h
  split at h
  · cases h
  · cases hexp : expand env s with
    | ok p =>
      rw [hexp] at h
      simp only [cleanO_eq_goClean] at h
      have hnf := goClean_normalForm (trimProtocol p)
      generalize goClean (trimProtocol p) = c at h hnf
      by_cases hroot : isRooted c = true
      · -- absolute after cleaning
        simp only [isAbsolute, hroot, if_true, Outcome.ok.injEq] at h
        subst h
        rcases hnf with rfl | rfl | ⟨h1, h2, _⟩
        · simp [isRooted] at hroot
        · exact ⟨[], by intro n hn; simp at hn, rfl⟩
        · refine ⟨bodyPieces c, ?_, ?_⟩
          · intro p hp
            exact ⟨(h1 p hp).1, mem_bodyPieces_not_slash hp, (h1 p hp).2, h2 hroot p hp⟩
          · have := bufOf_bodyPieces c
            rw [hroot] at this
            exact this.symm
      · -- relative: walk against the cwd
        have hroot' : isRooted c = false := by simpa using hroot
        simp only [isAbsolute, hroot', Bool.false_eq_true, if_false] at h
        rcases hnf with rfl | rfl | ⟨h1, _, h3⟩
        · -- "."
          have hc : components ['.'] = [.cur] := by decide
          have ht : trimFirst ['.'] = [] := by decide
          have hc0 : components ([] : Str) = [] := by decide
          rw [hc] at h
          simp only [List.length_cons, List.length_nil, Nat.zero_add, Nat.reduceAdd] at h
          rw [absLoop, hc] at h
          simp only [List.head?_cons, ht] at h
          rw [absLoop, hc0] at h
          simp only [List.head?_nil] at h
          cases h
          exact ⟨K, hK, rfl⟩
        · simp [isRooted] at hroot'
        · obtain ⟨j, qs, hps, hqs⟩ := dotdot_run h3
          have hc : c = bufOf false (List.replicate j dotdot ++ qs) := by
            have := bufOf_bodyPieces c
            rw [hroot', hps] at this
            exact this.symm
          have hwqs : WfKey qs := by
            intro q hq
            have hm : q ∈ bodyPieces c := by rw [hps]; exact List.mem_append_right _ hq
            exact ⟨(h1 q hm).1, mem_bodyPieces_not_slash hm, (h1 q hm).2, hqs q hq⟩
          rw [hc] at h
          exact absLoop_wf _ K j qs hK hwqs h
    | err k => rw [hexp] at h; cases h
    | panic => rw [hexp] at h; cases h
    | hang => rw [hexp] at h; cases h

/-- the keys `abs` hands to the Memfs operations are well formed -/
theorem absM_wf {env : Env} {p : Str} {st : State} {k : FsPath} (hcwd : WfKey st.cwd)
    (h : absM env p st = (.ok k, st)) : WfKey k := by
  unfold absM at h
  cases ha : absWith env (renderP st.cwd) p with
  | ok a =>
    rw [ha] at h
    simp only [Prod.mk.injEq, Outcome.ok.injEq, and_true] at h
    obtain ⟨K', hK', rfl⟩ := absWith_wf hcwd ha
    rw [toPath_renderP hK'] at h
    exact h ▸ hK'
  | err e => rw [ha] at h; cases h
  | panic => rw [ha] at h; cases h
  | hang => rw [ha] at h; cases h

end Rivia.Lemmas
