/-
  Rivia.Lemmas.InvBBase — C03 (group B) foundations:
  * association-list lemmas for `alLookup / alInsert / alErase`
  * the lookup-level invariant `InvL`, the Prop-level invariant `InvP` and `inv_iff : Inv s ↔ InvP s`
  * `KeysWf` (well-formed key names) and its lookup form
-/
import Rivia.Spec.MemfsJudge
import Rivia.Lemmas.Clean

namespace Rivia.Lemmas.InvB
open Rivia Rivia.Memfs Rivia.File Rivia.Spec Rivia.Lemmas

/-! ### association lists -/

section AL
variable {β : Type}

def keys (l : List (FsPath × β)) : List FsPath := l.map (·.1)

@[simp] theorem keys_nil : keys ([] : List (FsPath × β)) = [] := rfl
@[simp] theorem keys_cons (kv : FsPath × β) (l : List (FsPath × β)) : keys (kv :: l) = kv.1 :: keys l := rfl

theorem alLookup_alInsert (k k' : FsPath) (v : β) (l : List (FsPath × β)) :
    alLookup k (alInsert k' v l) = if k' = k then some v else alLookup k l := by
  induction l with
  | nil => simp [alInsert, alLookup]
  | cons kv r ih =>
    obtain ⟨k0, v0⟩ := kv
    by_cases h0 : k0 = k'
    · subst h0
      by_cases h1 : k0 = k <;> simp [alInsert, alLookup, h1]
    · by_cases h1 : k0 = k
      · subst h1
        have : ¬ k' = k0 := fun h => h0 h.symm
        simp [alInsert, alLookup, h0, this]
      · simp [alInsert, alLookup, h0, h1, ih]

theorem mem_keys_alInsert (x k : FsPath) (v : β) (l : List (FsPath × β)) :
    x ∈ keys (alInsert k v l) ↔ x = k ∨ x ∈ keys l := by
  induction l with
  | nil => simp [alInsert, keys]
  | cons kv r ih =>
    obtain ⟨k0, v0⟩ := kv
    by_cases h0 : k0 = k
    · subst h0; simp [alInsert]
    · simp only [alInsert, h0, if_false, keys_cons, List.mem_cons, ih]
      constructor
      · rintro (h | h | h) <;> simp [h]
      · rintro (h | h | h) <;> simp [h]

theorem nodup_keys_alInsert (k : FsPath) (v : β) {l : List (FsPath × β)} (h : (keys l).Nodup) :
    (keys (alInsert k v l)).Nodup := by
  induction l with
  | nil => simp [alInsert, keys]
  | cons kv r ih =>
    obtain ⟨k0, v0⟩ := kv
    simp only [keys_cons, List.nodup_cons] at h
    by_cases h0 : k0 = k
    · subst h0; simpa [alInsert] using h
    · simp only [alInsert, h0, if_false, keys_cons, List.nodup_cons]
      refine ⟨fun hx => ?_, ih h.2⟩
      rcases (mem_keys_alInsert _ _ _ _).1 hx with hx | hx
      · exact h0 hx
      · exact h.1 hx

theorem alLookup_eq_none_iff (k : FsPath) (l : List (FsPath × β)) :
    alLookup k l = none ↔ k ∉ keys l := by
  induction l with
  | nil => simp [alLookup]
  | cons kv r ih =>
    obtain ⟨k0, v0⟩ := kv
    by_cases h0 : k0 = k
    · subst h0; simp [alLookup]
    · have : ¬ k = k0 := fun h => h0 h.symm
      simp [alLookup, h0, ih, this]

theorem alLookup_isSome_iff (k : FsPath) (l : List (FsPath × β)) :
    (alLookup k l).isSome = true ↔ k ∈ keys l := by
  cases h : alLookup k l with
  | none => simp [(alLookup_eq_none_iff k l).1 h]
  | some v =>
    have : ¬ alLookup k l = none := by simp [h]
    rw [alLookup_eq_none_iff] at this
    simpa using this

theorem alLookup_alErase (k k' : FsPath) {l : List (FsPath × β)} (h : (keys l).Nodup) :
    alLookup k (alErase k' l) = if k' = k then none else alLookup k l := by
  induction l with
  | nil => simp [alErase, alLookup]
  | cons kv r ih =>
    obtain ⟨k0, v0⟩ := kv
    simp only [keys_cons, List.nodup_cons] at h
    by_cases h0 : k0 = k'
    · subst h0
      by_cases h1 : k0 = k
      · subst h1
        simp [alErase, (alLookup_eq_none_iff k0 r).2 h.1]
      · simp [alErase, alLookup, h1]
    · by_cases h1 : k0 = k
      · subst h1
        have : ¬ k' = k0 := fun h => h0 h.symm
        simp [alErase, alLookup, h0, this]
      · simp [alErase, alLookup, h0, h1, ih h.2]

theorem mem_alErase {kv : FsPath × β} {k : FsPath} {l : List (FsPath × β)} (h : kv ∈ alErase k l) : kv ∈ l := by
  induction l with
  | nil => simp [alErase] at h
  | cons kv0 r ih =>
    obtain ⟨k0, v0⟩ := kv0
    by_cases h0 : k0 = k
    · simp only [alErase, h0, if_true] at h; exact List.mem_cons_of_mem _ h
    · simp only [alErase, h0, if_false, List.mem_cons] at h
      rcases h with h | h
      · simp [h]
      · exact List.mem_cons_of_mem _ (ih h)

theorem mem_keys_alErase {x k : FsPath} {l : List (FsPath × β)} (h : x ∈ keys (alErase k l)) : x ∈ keys l := by
  simp only [keys, List.mem_map] at h ⊢
  obtain ⟨kv, hkv, rfl⟩ := h
  exact ⟨kv, mem_alErase hkv, rfl⟩

theorem nodup_keys_alErase (k : FsPath) {l : List (FsPath × β)} (h : (keys l).Nodup) :
    (keys (alErase k l)).Nodup := by
  induction l with
  | nil => simp [alErase, keys]
  | cons kv r ih =>
    obtain ⟨k0, v0⟩ := kv
    simp only [keys_cons, List.nodup_cons] at h
    by_cases h0 : k0 = k
    · simpa [alErase, h0] using h.2
    · simp only [alErase, h0, if_false, keys_cons, List.nodup_cons]
      exact ⟨fun hx => h.1 (mem_keys_alErase hx), ih h.2⟩

theorem alLookup_eq_some_iff_mem {k : FsPath} {v : β} {l : List (FsPath × β)} (h : (keys l).Nodup) :
    alLookup k l = some v ↔ (k, v) ∈ l := by
  induction l with
  | nil => simp [alLookup]
  | cons kv r ih =>
    obtain ⟨k0, v0⟩ := kv
    simp only [keys_cons, List.nodup_cons] at h
    by_cases h0 : k0 = k
    · subst h0
      simp only [alLookup, if_true, Option.some.injEq, List.mem_cons, Prod.mk.injEq, true_and]
      constructor
      · intro h1; exact Or.inl h1.symm
      · rintro (h1 | h1)
        · exact h1.symm
        · exact absurd (List.mem_map.2 ⟨_, h1, rfl⟩) h.1
    · have : ¬ k = k0 := fun h => h0 h.symm
      simp [alLookup, h0, ih h.2, this]

end AL

/-! ### the invariant on lookup functions -/

/-- the clauses of `invViolation` that speak about the two maps, stated on their lookup functions -/
structure InvL (E : FsPath → Option Entry) (F : FsPath → Option Bytes) : Prop where
  root : ∃ e, E [] = some e ∧ e.dir = true ∧ e.link = false
  parent : ∀ k e, E k = some e → k ≠ [] →
    ∃ pe fs, E k.dropLast = some pe ∧ pe.dir = true ∧ pe.link = false ∧ pe.files = some fs ∧ baseName k ∈ fs
  kids : ∀ k e fs n, E k = some e → e.files = some fs → n ∈ fs → (E (k ++ [n])).isSome = true
  data : ∀ k e, E k = some e → ((e.file = true ∧ e.link = false) ↔ (F k).isSome = true)
  dangling : ∀ k, (F k).isSome = true → (E k).isSome = true
  path : ∀ k e, E k = some e → e.path = k
  dirflag : ∀ k e, E k = some e → (e.files.isSome = true ↔ e.dir = true)
  nodupKids : ∀ k e fs, E k = some e → e.files = some fs → fs.Nodup

def EL (s : State) : FsPath → Option Entry := fun k => alLookup k s.entries
def FL (s : State) : FsPath → Option Bytes := fun k => alLookup k s.files

/-- Prop-level formulation of `Inv` -/
def InvP (s : State) : Prop :=
  (keys s.entries).Nodup ∧ (keys s.files).Nodup ∧ s.root = [] ∧ InvL (EL s) (FL s)

/-! ### `Inv s ↔ InvP s` -/

theorem invViolation_none_iff (s : State) : invViolation s = none ↔
    ((!(s.entries.map (·.1)).Nodup) = false ∧
     ((alLookup [] s.entries).map (fun e => e.dir && !e.link) != some true) = false ∧
     ¬ (s.root ≠ []) ∧
     s.entries.find? (fun kv => kv.1 ≠ [] &&
        (match alLookup kv.1.dropLast s.entries with
         | some pe => !(pe.dir && !pe.link && (match pe.files with | some fs => fs.contains (baseName kv.1) | none => false))
         | none => true)) = none ∧
     s.entries.find? (fun kv => match kv.2.files with
        | some fs => fs.any (fun n => (alLookup (kv.1 ++ [n]) s.entries).isNone)
        | none => false) = none ∧
     s.entries.find? (fun kv => (kv.2.file && !kv.2.link) != (alLookup kv.1 s.files).isSome) = none ∧
     s.files.find? (fun kv => (alLookup kv.1 s.entries).isNone) = none ∧
     (!(s.files.map (·.1)).Nodup) = false ∧
     s.entries.find? (fun kv => kv.2.path ≠ kv.1) = none ∧
     s.entries.find? (fun kv => kv.2.files.isSome != kv.2.dir) = none ∧
     s.entries.find? (fun kv => match kv.2.files with | some fs => !fs.Nodup | none => false) = none) := by
  constructor
  · intro h
    unfold invViolation at h
    simp only [] at h
    iterate 11 (split at h; (· cases h))
    rename_i h1 h2 h3 _ h4 _ h5 _ h6 _ h7 h8 _ h9 _ h10 _ h11
    exact ⟨by simpa using h1, by simpa using h2, h3, h4, h5, h6, h7, by simpa using h8, h9, h10, h11⟩
  · rintro ⟨h1, h2, h3, h4, h5, h6, h7, h8, h9, h10, h11⟩
    unfold invViolation
    simp only []
    rw [if_neg (by rw [h1]; simp), if_neg (by rw [h2]; simp), if_neg h3]
    split
    · rename_i hh; cases hh.symm.trans h4
    split
    · rename_i hh; cases hh.symm.trans h5
    split
    · rename_i hh; cases hh.symm.trans h6
    split
    · rename_i hh; cases hh.symm.trans h7
    rw [if_neg (by rw [h8]; simp)]
    split
    · rename_i hh; cases hh.symm.trans h9
    split
    · rename_i hh; cases hh.symm.trans h10
    split
    · rename_i hh; cases hh.symm.trans h11
    rfl

theorem clause_parent (s : State) (hnd : (keys s.entries).Nodup) :
    s.entries.find? (fun kv => kv.1 ≠ [] &&
        (match alLookup kv.1.dropLast s.entries with
         | some pe => !(pe.dir && !pe.link && (match pe.files with | some fs => fs.contains (baseName kv.1) | none => false))
         | none => true)) = none ↔
    ∀ k e, EL s k = some e → k ≠ [] →
      ∃ pe fs, EL s k.dropLast = some pe ∧ pe.dir = true ∧ pe.link = false ∧ pe.files = some fs ∧ baseName k ∈ fs := by
  rw [List.find?_eq_none]
  constructor
  · intro h k e hke hk
    have := h (k, e) ((alLookup_eq_some_iff_mem hnd).1 hke)
    simp only [ne_eq, hk, not_false_eq_true, decide_true, Bool.true_and] at this
    unfold EL
    cases hp : alLookup k.dropLast s.entries with
    | none => simp [hp] at this
    | some pe =>
      cases hf : pe.files with
      | none => simp [hp, hf] at this
      | some fs =>
        simp [hp, hf] at this
        exact ⟨pe, fs, rfl, this.1.1, this.1.2, hf, this.2⟩
  · intro h kv hkv
    obtain ⟨k, e⟩ := kv
    by_cases hk : k = []
    · simp [hk]
    · obtain ⟨pe, fs, h1, h2, h3, h4, h5⟩ := h k e ((alLookup_eq_some_iff_mem hnd).2 hkv) hk
      unfold EL at h1
      simp [hk, h1, h2, h3, h4, h5]

theorem clause_kids (s : State) (hnd : (keys s.entries).Nodup) :
    s.entries.find? (fun kv => match kv.2.files with
        | some fs => fs.any (fun n => (alLookup (kv.1 ++ [n]) s.entries).isNone)
        | none => false) = none ↔
    ∀ k e fs n, EL s k = some e → e.files = some fs → n ∈ fs → (EL s (k ++ [n])).isSome = true := by
  rw [List.find?_eq_none]
  constructor
  · intro h k e fs n hke hf hn
    have := h (k, e) ((alLookup_eq_some_iff_mem hnd).1 hke)
    simp only [hf] at this
    simp only [List.any_eq_true, not_exists, not_and] at this
    have := this n hn
    unfold EL
    cases hx : alLookup (k ++ [n]) s.entries <;> simp [hx] at this ⊢
  · intro h kv hkv
    obtain ⟨k, e⟩ := kv
    cases hf : e.files with
    | none => simp
    | some fs =>
      simp only [List.any_eq_true, not_exists, not_and]
      intro n hn
      have := h k e fs n ((alLookup_eq_some_iff_mem hnd).2 hkv) hf hn
      unfold EL at this
      cases hx : alLookup (k ++ [n]) s.entries <;> simp [hx] at this ⊢

theorem clause_data (s : State) (hnd : (keys s.entries).Nodup) :
    s.entries.find? (fun kv => (kv.2.file && !kv.2.link) != (alLookup kv.1 s.files).isSome) = none ↔
    ∀ k e, EL s k = some e → ((e.file = true ∧ e.link = false) ↔ (FL s k).isSome = true) := by
  rw [List.find?_eq_none]
  constructor
  · intro h k e hke
    have := h (k, e) ((alLookup_eq_some_iff_mem hnd).1 hke)
    unfold FL
    cases h1 : e.file <;> cases h2 : e.link <;> cases h3 : (alLookup k s.files).isSome <;> simp [h1, h2, h3] at this ⊢
  · intro h kv hkv
    obtain ⟨k, e⟩ := kv
    have := h k e ((alLookup_eq_some_iff_mem hnd).2 hkv)
    unfold FL at this
    cases h1 : e.file <;> cases h2 : e.link <;> cases h3 : (alLookup k s.files).isSome <;> simp [h1, h2, h3] at this ⊢

theorem clause_dangling (s : State) (hnd : (keys s.files).Nodup) :
    s.files.find? (fun kv => (alLookup kv.1 s.entries).isNone) = none ↔
    ∀ k, (FL s k).isSome = true → (EL s k).isSome = true := by
  rw [List.find?_eq_none]
  constructor
  · intro h k hk
    unfold FL at hk
    cases hb : alLookup k s.files with
    | none => simp [hb] at hk
    | some b =>
      have := h (k, b) ((alLookup_eq_some_iff_mem hnd).1 hb)
      unfold EL
      cases hx : alLookup k s.entries <;> simp [hx] at this ⊢
  · intro h kv hkv
    obtain ⟨k, b⟩ := kv
    have := h k (by unfold FL; rw [(alLookup_eq_some_iff_mem hnd).2 hkv]; rfl)
    unfold EL at this
    cases hx : alLookup k s.entries <;> simp [hx] at this ⊢

theorem clause_path (s : State) (hnd : (keys s.entries).Nodup) :
    s.entries.find? (fun kv => kv.2.path ≠ kv.1) = none ↔ ∀ k e, EL s k = some e → e.path = k := by
  rw [List.find?_eq_none]
  constructor
  · intro h k e hke
    simpa using h (k, e) ((alLookup_eq_some_iff_mem hnd).1 hke)
  · intro h kv hkv
    obtain ⟨k, e⟩ := kv
    simpa using h k e ((alLookup_eq_some_iff_mem hnd).2 hkv)

theorem clause_dirflag (s : State) (hnd : (keys s.entries).Nodup) :
    s.entries.find? (fun kv => kv.2.files.isSome != kv.2.dir) = none ↔
    ∀ k e, EL s k = some e → (e.files.isSome = true ↔ e.dir = true) := by
  rw [List.find?_eq_none]
  constructor
  · intro h k e hke
    have := h (k, e) ((alLookup_eq_some_iff_mem hnd).1 hke)
    cases h1 : e.files.isSome <;> cases h2 : e.dir <;> simp [h1, h2] at this ⊢
  · intro h kv hkv
    obtain ⟨k, e⟩ := kv
    have := h k e ((alLookup_eq_some_iff_mem hnd).2 hkv)
    cases h1 : e.files.isSome <;> cases h2 : e.dir <;> simp [h1, h2] at this ⊢

theorem clause_nodupKids (s : State) (hnd : (keys s.entries).Nodup) :
    s.entries.find? (fun kv => match kv.2.files with | some fs => !fs.Nodup | none => false) = none ↔
    ∀ k e fs, EL s k = some e → e.files = some fs → fs.Nodup := by
  rw [List.find?_eq_none]
  constructor
  · intro h k e fs hke hf
    have := h (k, e) ((alLookup_eq_some_iff_mem hnd).1 hke)
    simpa [hf] using this
  · intro h kv hkv
    obtain ⟨k, e⟩ := kv
    cases hf : e.files with
    | none => simp
    | some fs => simpa [hf] using h k e fs ((alLookup_eq_some_iff_mem hnd).2 hkv) hf

theorem clause_root (s : State) :
    ((alLookup [] s.entries).map (fun e => e.dir && !e.link) != some true) = false ↔
    ∃ e, EL s [] = some e ∧ e.dir = true ∧ e.link = false := by
  unfold EL
  cases h : alLookup [] s.entries with
  | none => simp
  | some e => cases h1 : e.dir <;> cases h2 : e.link <;> simp [h1, h2]

theorem inv_iff (s : State) : Spec.Inv s ↔ InvP s := by
  unfold Spec.Inv InvP
  rw [invViolation_none_iff]
  constructor
  · rintro ⟨h1, h2, h3, h4, h5, h6, h7, h8, h9, h10, h11⟩
    have hnd : (keys s.entries).Nodup := by simpa [keys] using h1
    have hnf : (keys s.files).Nodup := by simpa [keys] using h8
    exact ⟨hnd, hnf, by simpa using h3,
      ⟨(clause_root s).1 h2, (clause_parent s hnd).1 h4, (clause_kids s hnd).1 h5, (clause_data s hnd).1 h6,
       (clause_dangling s hnf).1 h7, (clause_path s hnd).1 h9, (clause_dirflag s hnd).1 h10,
       (clause_nodupKids s hnd).1 h11⟩⟩
  · rintro ⟨hnd, hnf, hr, hL⟩
    exact ⟨by simpa [keys] using hnd, (clause_root s).2 hL.root, by simpa using hr,
      (clause_parent s hnd).2 hL.parent, (clause_kids s hnd).2 hL.kids, (clause_data s hnd).2 hL.data,
      (clause_dangling s hnf).2 hL.dangling, by simpa [keys] using hnf, (clause_path s hnd).2 hL.path,
      (clause_dirflag s hnd).2 hL.dirflag, (clause_nodupKids s hnd).2 hL.nodupKids⟩


/-! ### the three extra invariants needed for `moveP` (not part of `Inv`) -/

/-- the order the child lists are kept in (`insertName` assumes it) -/
def nameLE (a b : Str) : Prop := strLt b a = false

instance (a b : Str) : Decidable (nameLE a b) := by unfold nameLE; infer_instance

/-- every name of every key (and of cwd) is a real path element: non-empty, not `.`, slash-free -/
def KeysWf (s : State) : Prop :=
  (∀ kv ∈ s.entries, ∀ n ∈ kv.1, BodyPiece n) ∧ (∀ n ∈ s.cwd, BodyPiece n)

/-- every child-name list is sorted -/
def SortedKids (s : State) : Prop :=
  ∀ kv ∈ s.entries, ∀ fs, kv.2.files = some fs → fs.Pairwise nameLE

/-- no entry is flagged both as a file and as a directory -/
def FlagsOk (s : State) : Prop :=
  ∀ kv ∈ s.entries, ¬ (kv.2.file = true ∧ kv.2.dir = true)

instance (s : State) : Decidable (FlagsOk s) := by unfold FlagsOk; infer_instance

instance (p : Str) : Decidable (BodyPiece p) := by unfold BodyPiece; infer_instance
instance (s : State) : Decidable (KeysWf s) := by unfold KeysWf; infer_instance
instance (s : State) : Decidable (SortedKids s) := by unfold SortedKids; infer_instance

/-- lookup form of the two extras -/
structure ExtL (E : FsPath → Option Entry) : Prop where
  keysWf : ∀ k e, E k = some e → ∀ n ∈ k, BodyPiece n
  sorted : ∀ k e fs, E k = some e → e.files = some fs → fs.Pairwise nameLE
  flags : ∀ k e, E k = some e → ¬ (e.file = true ∧ e.dir = true)

def ExtS (s : State) : Prop := ExtL (EL s) ∧ ∀ n ∈ s.cwd, BodyPiece n

theorem extS_iff {s : State} (hnd : (keys s.entries).Nodup) :
    ExtS s ↔ KeysWf s ∧ SortedKids s ∧ FlagsOk s := by
  unfold ExtS KeysWf SortedKids FlagsOk
  constructor
  · rintro ⟨⟨h1, h2, h4⟩, h3⟩
    refine ⟨⟨?_, h3⟩, ?_, ?_⟩
    · rintro ⟨k, e⟩ hkv; exact h1 k e ((alLookup_eq_some_iff_mem hnd).2 hkv)
    · rintro ⟨k, e⟩ hkv fs hf; exact h2 k e fs ((alLookup_eq_some_iff_mem hnd).2 hkv) hf
    · rintro ⟨k, e⟩ hkv; exact h4 k e ((alLookup_eq_some_iff_mem hnd).2 hkv)
  · rintro ⟨⟨h1, h3⟩, h2, h4⟩
    refine ⟨⟨?_, ?_, ?_⟩, h3⟩
    · intro k e hk; exact h1 (k, e) ((alLookup_eq_some_iff_mem hnd).1 hk)
    · intro k e fs hk hf; exact h2 (k, e) ((alLookup_eq_some_iff_mem hnd).1 hk) fs hf
    · intro k e hk; exact h4 (k, e) ((alLookup_eq_some_iff_mem hnd).1 hk)

/-- `InvP`, plus the extras when `b` holds (`b := False`: plain invariant; `b := True`: strengthened) -/
def Good (b : Prop) (s : State) : Prop := InvP s ∧ (b → ExtS s)

end Rivia.Lemmas.InvB
