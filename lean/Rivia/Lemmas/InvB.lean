/-
  Rivia.Lemmas.InvB — C03, group B: `remove`, `removeAll`, `symlink`, `moveP` preserve the tree invariant.

  * `InvP`, `inv_iff : Inv s ↔ InvP s`                       (InvBBase)
  * association-list lemmas                                  (InvBBase)
  * `absM_wf`, `absWith_wf`, `dstOf_append`                  (InvBAbs)
  * remove / removeAll / symlink / add                       (InvBOps)
  * `MoveInv` (loop invariant of `moveLoop`), `good_moveM`   (InvBMove)

  Results
  * `inv_step_B3`   : `remove`, `removeAll`, `symlink` preserve plain `Inv`, for every environment, every
                      argument and every outcome (also `hang`), with no further hypothesis.
  * `moveP` does NOT preserve plain `Inv` (three unreachable witnesses, see `Rivia/Props/C03B.lean`); it
    preserves the strengthened invariant `Strong s := Inv s ∧ KeysWf s ∧ SortedKids s ∧ FlagsOk s`.
  * `strong_step_B` : all four operations preserve `Strong` (outcome ≠ hang needed for `moveP` only).
  * `inv_step_B`    : the requested statement, with the three extras as explicit hypotheses.
-/
import Rivia.Lemmas.InvBMove

namespace Rivia.Lemmas.InvB
open Rivia Rivia.Memfs Rivia.File Rivia.Spec Rivia.Lemmas

/-- the operations of group B -/
def CoveredB : Op → Prop
  | .remove _ | .removeAll _ | .symlink _ _ | .moveP _ _ => True
  | _ => False

instance : DecidablePred CoveredB := fun op => by
  cases op <;> unfold CoveredB <;> infer_instance

/-- the operations of group B that preserve the plain invariant -/
def CoveredB3 : Op → Prop
  | .remove _ | .removeAll _ | .symlink _ _ => True
  | _ => False

instance : DecidablePred CoveredB3 := fun op => by
  cases op <;> unfold CoveredB3 <;> infer_instance

/-- the strengthened invariant: `Inv` plus well-formed key names, sorted child lists, exclusive kind flags -/
def Strong (s : State) : Prop := Spec.Inv s ∧ KeysWf s ∧ SortedKids s ∧ FlagsOk s

instance (s : State) : Decidable (Strong s) := by unfold Strong; infer_instance

theorem good_false_iff (s : State) : Good False s ↔ Spec.Inv s := by
  unfold Good
  rw [inv_iff]
  exact ⟨fun h => h.1, fun h => ⟨h, fun hf => hf.elim⟩⟩

theorem good_true_iff (s : State) : Good True s ↔ Strong s := by
  unfold Good Strong
  rw [inv_iff]
  constructor
  · rintro ⟨h1, h2⟩; exact ⟨h1, (extS_iff h1.1).1 (h2 trivial)⟩
  · rintro ⟨h1, h2⟩; exact ⟨h1, fun _ => (extS_iff h1.1).2 h2⟩

/-- `remove`, `removeAll`, `symlink`: `Good b` is preserved for both readings of `b` -/
theorem good_step_B3 {b : Prop} (env : Env) (s : State) (op : Op) (hc : CoveredB3 op) (h : Good b s) :
    Good b (step env s op).2 := by
  cases op <;> simp only [CoveredB3] at hc
  · rw [step, mapVal_snd]; exact good_removeM env _ s h
  · rw [step, mapVal_snd]; exact good_removeAllM env _ s h
  · rw [step, mapVal_snd]; exact good_symlinkM env _ _ s h

/-- **remove / removeAll / symlink preserve `Inv`** — every environment, every argument, every outcome
    (error exits and `hang` included) -/
theorem inv_step_B3 (env : Env) (s : State) (op : Op) (hc : CoveredB3 op) (h : Spec.Inv s) :
    Spec.Inv (step env s op).2 :=
  (good_false_iff _).1 (good_step_B3 env s op hc ((good_false_iff s).2 h))

/-- **all four operations preserve the strengthened invariant** -/
theorem strong_step_B (env : Env) (s : State) (op : Op) (hc : CoveredB op) (h : Strong s)
    (hh : (step env s op).1 ≠ .hang) : Strong (step env s op).2 := by
  rw [← good_true_iff] at h ⊢
  cases op <;> simp only [CoveredB] at hc
  · exact good_step_B3 env s _ trivial h
  · exact good_step_B3 env s _ trivial h
  · exact good_step_B3 env s _ trivial h
  · rw [step, mapVal_snd]
    rw [step] at hh
    exact good_moveM env _ _ s h (fun h0 => hh ((mapVal_hang _ _ _).2 h0))

/-- the requested statement; `KeysWf`, `SortedKids`, `FlagsOk` are needed for `moveP` only
    (`inv_step_B3` covers the other three without them) -/
theorem inv_step_B (env : Env) (s : State) (op : Op) (hc : CoveredB op)
    (h : Spec.Inv s) (hk : KeysWf s) (hs : SortedKids s) (hf : FlagsOk s)
    (hh : (step env s op).1 ≠ .hang) : Spec.Inv (step env s op).2 :=
  (strong_step_B env s op hc ⟨h, hk, hs, hf⟩ hh).1

/-- the extras are themselves preserved -/
theorem extras_step_B (env : Env) (s : State) (op : Op) (hc : CoveredB op)
    (h : Spec.Inv s) (hk : KeysWf s) (hs : SortedKids s) (hf : FlagsOk s)
    (hh : (step env s op).1 ≠ .hang) :
    KeysWf (step env s op).2 ∧ SortedKids (step env s op).2 ∧ FlagsOk (step env s op).2 :=
  (strong_step_B env s op hc ⟨h, hk, hs, hf⟩ hh).2

/-- `KeysWf s` discharges the "abs only returns well-formed keys" hypothesis used by group A -/
theorem absWf_of_keysWf (env : Env) (s : State) (hk : KeysWf s) :
    ∀ raw a, absWith env (renderP s.cwd) raw = .ok a → ∀ n ∈ toPath a, BodyPiece n :=
  fun _ _ h => absWith_wf hk.2 h

end Rivia.Lemmas.InvB
