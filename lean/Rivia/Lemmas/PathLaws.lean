/-
  Rivia.Lemmas.PathLaws — helper lemmas for C15 (inverse / containment laws of the path helpers).
-/
import Rivia.Lemmas.PathBasics
import Rivia.Lemmas.Components
import Rivia.Lemmas.Protocol
import Rivia.Spec.PathLaws

namespace Rivia.Lemmas
open Rivia Rivia.Str Rivia.Spec

/-! ### byte slicing -/

theorem byteLen_append (a b : Str) : byteLen (a ++ b) = byteLen a + byteLen b := by
  induction a with
  | nil => simp [byteLen]
  | cons c cs ih => simp [byteLen, ih]; omega

theorem dropBytes_zero (s : Str) : dropBytes s 0 = some s := by
  cases s <;> rfl

theorem takeBytes_zero (s : Str) : takeBytes s 0 = some [] := by
  cases s <;> rfl

theorem dropBytes_append (a b : Str) : dropBytes (a ++ b) (byteLen a) = some b := by
  induction a with
  | nil => exact dropBytes_zero b
  | cons c cs ih =>
    have hpos := Char.utf8Size_pos c
    obtain ⟨k, hk⟩ : ∃ k, c.utf8Size + byteLen cs = k + 1 := ⟨c.utf8Size + byteLen cs - 1, by omega⟩
    simp only [byteLen, List.cons_append, hk, dropBytes]
    rw [if_pos (by omega)]
    have : k + 1 - c.utf8Size = byteLen cs := by omega
    rw [this, ih]

theorem takeBytes_append (a b : Str) : takeBytes (a ++ b) (byteLen a) = some a := by
  induction a with
  | nil => exact takeBytes_zero b
  | cons c cs ih =>
    have hpos := Char.utf8Size_pos c
    obtain ⟨k, hk⟩ : ∃ k, c.utf8Size + byteLen cs = k + 1 := ⟨c.utf8Size + byteLen cs - 1, by omega⟩
    simp only [byteLen, List.cons_append, hk, takeBytes]
    rw [if_pos (by omega)]
    have : k + 1 - c.utf8Size = byteLen cs := by omega
    rw [this, ih]
    rfl

theorem trimPrefixO_append (s p : Str) : trimPrefixO (s ++ p) s = some p := by
  unfold trimPrefixO
  rw [if_pos (by simp), dropBytes_append]

theorem trimPrefixO_of_not_prefix {p s : Str} (h : ¬ s <+: p) : trimPrefixO p s = some p := by
  unfold trimPrefixO
  rw [if_neg (by simpa using h)]

theorem trimPrefixO_eq_spec (p s : Str) : trimPrefixO p s = some (trimPrefixSpec p s) := by
  unfold trimPrefixSpec
  by_cases h : s <+: p
  · obtain ⟨t, rfl⟩ := h
    rw [trimPrefixO_append, if_pos (by simp)]
    simp
  · rw [trimPrefixO_of_not_prefix h, if_neg (by simpa using h)]

theorem trimSuffixO_append (p s : Str) : trimSuffixO (p ++ s) s = some p := by
  unfold trimSuffixO
  rw [if_pos (by simp), byteLen_append, Nat.add_sub_cancel, takeBytes_append]

theorem trimSuffixO_of_not_suffix {p s : Str} (h : ¬ s <:+ p) : trimSuffixO p s = some p := by
  unfold trimSuffixO
  rw [if_neg (by simpa using h)]

theorem trimSuffixO_eq_spec (p s : Str) : trimSuffixO p s = some (trimSuffixSpec p s) := by
  unfold trimSuffixSpec
  by_cases h : s <:+ p
  · obtain ⟨t, rfl⟩ := h
    rw [trimSuffixO_append, if_pos (by simp)]
    simp
  · rw [trimSuffixO_of_not_suffix h, if_neg (by simpa using h)]

/-! ### has / has_prefix / has_suffix -/

theorem contains_iff (p v : Str) : Str.contains p v = true ↔ IsInfix v p := by
  unfold IsInfix
  induction p with
  | nil =>
    simp only [Str.contains, List.isEmpty_iff]
    constructor
    · rintro rfl; exact ⟨[], [], rfl⟩
    · rintro ⟨a, b, h⟩
      simp at h
      exact h.2.1
  | cons c cs ih =>
    simp only [Str.contains, Bool.or_eq_true, ih, List.isPrefixOf_iff_prefix]
    constructor
    · rintro (⟨t, ht⟩ | ⟨a, b, h⟩)
      · exact ⟨[], t, by simpa using ht.symm⟩
      · exact ⟨c :: a, b, by simp [h]⟩
    · rintro ⟨a, b, h⟩
      cases a with
      | nil => exact Or.inl ⟨b, by simpa using h.symm⟩
      | cons x a' =>
        simp only [List.cons_append, List.cons.injEq] at h
        exact Or.inr ⟨a', b, h.2⟩

theorem hasPrefix_iff (p v : Str) : hasPrefix p v = true ↔ ∃ b, p = v ++ b := by
  simp only [hasPrefix, List.isPrefixOf_iff_prefix]
  exact ⟨fun ⟨t, h⟩ => ⟨t, h.symm⟩, fun ⟨t, h⟩ => ⟨t, h.symm⟩⟩

theorem hasSuffix_iff (p v : Str) : hasSuffix p v = true ↔ ∃ a, p = a ++ v := by
  simp only [hasSuffix, List.isSuffixOf_iff_suffix]
  exact ⟨fun ⟨t, h⟩ => ⟨t, h.symm⟩, fun ⟨t, h⟩ => ⟨t, h.symm⟩⟩

/-! ### parse_paths -/

theorem parsePaths_segments (s : Str) :
    joinWith ':' (splitOn ':' s) = s ∧ ∀ x ∈ parsePaths s, x ≠ [] ∧ ':' ∉ x := by
  refine ⟨joinWith_splitOn ':' s, ?_⟩
  intro x hx
  simp only [parsePaths, List.mem_filter, decide_eq_true_eq] at hx
  exact ⟨hx.2, not_mem_of_mem_splitOn ':' s x hx.1⟩

/-! ### mash -/

theorem endsWithSlash_true {d : Str} (h : endsWithSlash d = true) : ∃ d', d = d' ++ ['/'] := by
  induction d with
  | nil => simp [endsWithSlash] at h
  | cons c cs ih =>
    cases cs with
    | nil =>
      simp only [endsWithSlash, beq_iff_eq] at h
      exact ⟨[], by simp [h]⟩
    | cons c' cs' =>
      rw [endsWithSlash_cons_cons] at h
      obtain ⟨d', hd'⟩ := ih h
      exact ⟨c :: d', by rw [hd']; rfl⟩

theorem isRooted_stripSlashes (p : Str) : isRooted (stripSlashes p) = false := by
  induction p with
  | nil => rfl
  | cons c cs ih =>
    by_cases h : c = '/'
    · subst h; simpa [stripSlashes] using ih
    · have : stripSlashes (c :: cs) = c :: cs := by
        unfold stripSlashes
        split
        · next heq => simp only [List.cons.injEq] at heq; exact absurd heq.1 h
        · rfl
      rw [this, isRooted_cons]; simp [h]

/-- `components` of a string whose pieces are those of `a` followed by further pieces. -/
theorem components_of_split_append {s a : Str} {B : List Str} (hr : isRooted s = isRooted a)
    (hs : splitSlash s = splitSlash a ++ B) :
    components s = components a ++ B.filterMap bodyComp := by
  unfold components
  have hh : (splitSlash a ++ B).head? = (splitSlash a).head? := by
    cases h : splitSlash a with
    | nil => exact absurd h (splitSlash_ne_nil a)
    | cons x r => rfl
  rw [hs, hr, hh, List.filterMap_append]
  split
  · simp
  · simp

theorem components_push {d q : Str} (hd : d ≠ []) (hq : isRooted q = false) :
    components (push d q) = components d ++ bodyComps q := by
  unfold push bodyComps
  rw [hq]
  simp only [Bool.false_eq_true, if_false, ne_eq, hd, not_false_eq_true, true_and]
  by_cases he : endsWithSlash d = false
  · rw [if_pos he]
    apply components_of_split_append (isRooted_append hd _)
    exact splitOn_append_cons_sep '/' d q
  · rw [if_neg he]
    obtain ⟨d', rfl⟩ := endsWithSlash_true (by simpa using he)
    by_cases hd' : d' = []
    · subst hd'
      have h0 : components ([] ++ ['/']) = [.root] := by decide
      rw [h0]
      unfold components
      simp [isRooted_cons, splitSlash, splitOn_cons_sep, bodyComp_nil]
    · have h1 : components (d' ++ ['/']) = components d' := by
        have hsp : splitSlash (d' ++ ['/']) = splitSlash d' ++ [[]] :=
          splitOn_append_cons_sep '/' d' []
        rw [components_of_split_append (isRooted_append hd' _) hsp]
        simp [bodyComp_nil]
      have h2 : components (d' ++ ['/'] ++ q)
          = components d' ++ (splitSlash q).filterMap bodyComp := by
        have hsp : splitSlash (d' ++ ['/'] ++ q) = splitSlash d' ++ splitSlash q := by
          rw [List.append_assoc]; exact splitOn_append_cons_sep '/' d' q
        rw [components_of_split_append _ hsp]
        rw [List.append_assoc, isRooted_append hd']
      rw [h1, h2]

theorem push_nil_left (q : Str) : push [] q = q := by
  unfold push
  split <;> simp

theorem components_push_eq_mashComps (d p : Str) :
    components (push d (stripSlashes p)) = mashComps d p := by
  unfold mashComps
  by_cases hd : d = []
  · subst hd; simp [push_nil_left]
  · rw [if_neg hd, components_push hd (isRooted_stripSlashes p)]

theorem mash_components (d p : Str) : components (mash d p) = mashComps d p := by
  unfold mash
  rw [components_render (components_ok _), components_push_eq_mashComps]

theorem mash_canonical (d p : Str) : render (components (mash d p)) = mash d p := by
  unfold mash
  rw [components_render (components_ok _)]

theorem mash_stays_under (d p : Str) (hd : d ≠ []) : components d <+: components (mash d p) := by
  rw [mash_components]
  unfold mashComps
  rw [if_neg hd]
  exact List.prefix_append _ _

/-! ### parentStr / trimFirst / trimLast / dir -/

theorem mem_of_mem_dropTrailing {α} (p : α → Bool) {l : List α} {x : α}
    (h : x ∈ dropTrailing p l) : x ∈ l := by
  unfold dropTrailing at h
  have := (List.dropWhile_sublist p (l := l.reverse)).subset (List.mem_reverse.1 h)
  exact List.mem_reverse.1 this

abbrev nb : Str → Bool := fun p => !isBody p

theorem parentStr_nobody {s p0 : Str} {rest : List Str} (hs : splitSlash s = p0 :: rest)
    (h : dropTrailing nb rest = []) :
    parentStr s = if isRooted s then none else if p0 = [] then none else some [] := by
  unfold parentStr
  rw [hs]
  have h' : dropTrailing (fun p => !isBody p) rest = [] := h
  simp only [h', List.reverse_nil]

theorem parentStr_body {s p0 top : Str} {rest mid : List Str} (hs : splitSlash s = p0 :: rest)
    (h : dropTrailing nb rest = mid ++ [top]) :
    parentStr s = if dropTrailing nb mid = [] ∧ isRooted s then some ['/']
      else some (joinWith '/' (p0 :: dropTrailing nb mid)) := by
  unfold parentStr
  rw [hs]
  have h' : dropTrailing (fun p => !isBody p) rest = mid ++ [top] := h
  simp only [h', List.reverse_append, List.reverse_cons, List.reverse_nil, List.nil_append,
    List.cons_append, List.reverse_reverse]

theorem isBody_bodyComp {p : Str} (h : isBody p = true) : ∃ c, bodyComp p = some c := by
  cases hc : bodyComp p with
  | none => rw [bodyComp_eq_none_iff_isBody] at hc; simp [hc] at h
  | some c => exact ⟨c, rfl⟩

theorem filterMap_nonbody {l : List Str} (h : ∀ x ∈ l, nb x = true) : l.filterMap bodyComp = [] := by
  rw [List.filterMap_eq_nil_iff]
  intro x hx
  exact nonbody_none x (h x hx)

/-- `parent()` removes exactly the last component, which is never the root. -/
theorem parentStr_spec (s : Str) :
    match parentStr s with
    | none => components s = [] ∨ components s = [.root]
    | some d => ∃ c, components s = components d ++ [c] ∧ c ≠ .root := by
  cases hs : splitSlash s with
  | nil => exact absurd hs (splitSlash_ne_nil s)
  | cons p0 rest =>
    have hslash := splitSlash_not_mem s
    rw [hs] at hslash
    have hroot : isRooted s = true ↔ (p0 = [] ∧ rest ≠ []) := by
      rw [isRooted_iff_split, hs]
      constructor
      · rintro ⟨r, h1, h2⟩
        simp only [List.cons.injEq] at h2
        exact ⟨h2.1, h2.2 ▸ h1⟩
      · rintro ⟨rfl, h⟩; exact ⟨rest, h, rfl⟩
    have hcomp : components s = compsP (p0 :: rest) := by rw [components_eq_compsP, hs]
    rcases dropTrailing_cases nb rest with ⟨h0, hall⟩ | ⟨mid, top, h0, htop, tl, hrest, htl⟩
    · -- no body piece after the first one
      have hf : rest.filterMap bodyComp = [] := filterMap_nonbody hall
      rw [parentStr_nobody hs h0]
      by_cases hr : isRooted s = true
      · rw [if_pos hr]
        obtain ⟨rfl, hne⟩ := hroot.1 hr
        right
        rw [hcomp]
        simp [compsP, hne, bodyComp_nil, hf]
      · rw [if_neg hr]
        by_cases hp0 : p0 = []
        · rw [if_pos hp0]
          left
          subst hp0
          have hrest : rest = [] := by
            by_cases h : rest = []
            · exact h
            · exact absurd (hroot.2 ⟨rfl, h⟩) hr
          subst hrest
          rw [hcomp]; decide
        · rw [if_neg hp0]
          simp only [components_nil, List.nil_append]
          rw [hcomp]
          by_cases hdot : p0 = ['.']
          · subst hdot
            exact ⟨.cur, by simp [compsP, bodyComp_dot, hf], by simp⟩
          · obtain ⟨c, hc⟩ := isBody_bodyComp (isBody_eq_true hp0 hdot)
            exact ⟨c, by simp [compsP, hp0, hdot, hc, hf], bodyComp_ne_root hc⟩
    · -- `top` is the last body piece
      have htop' : isBody top = true := by simpa [nb] using htop
      obtain ⟨c, hc⟩ := isBody_bodyComp htop'
      have hne : rest ≠ [] := by rw [hrest]; simp
      have hf : rest.filterMap bodyComp = mid.filterMap bodyComp ++ [c] := by
        rw [hrest, List.filterMap_append, List.filterMap_cons_some hc, filterMap_nonbody htl]
      have hmid : (dropTrailing nb mid).filterMap bodyComp = mid.filterMap bodyComp :=
        filterMap_dropTrailing bodyComp nb nonbody_none mid
      rw [parentStr_body hs h0]
      by_cases hcase : dropTrailing nb mid = [] ∧ isRooted s = true
      · rw [if_pos hcase]
        obtain ⟨rfl, _⟩ := hroot.1 hcase.2
        have hm : mid.filterMap bodyComp = [] := by rw [← hmid, hcase.1]; rfl
        refine ⟨c, ?_, bodyComp_ne_root hc⟩
        have h1 : components ['/'] = [.root] := by decide
        rw [hcomp, h1]
        simp [compsP, hne, bodyComp_nil, hf, hm]
      · rw [if_neg hcase]
        refine ⟨c, ?_, bodyComp_ne_root hc⟩
        have hsl : ∀ p ∈ p0 :: dropTrailing nb mid, '/' ∉ p := by
          intro p hp
          rcases List.mem_cons.1 hp with rfl | hp
          · exact hslash _ (by simp)
          · apply hslash
            have := mem_of_mem_dropTrailing nb hp
            rw [hrest]; simp [this]
        rw [components_joinWith (by simp) hsl, hcomp]
        have hpre : (p0 = [] ∧ dropTrailing nb mid ≠ []) ↔ (p0 = [] ∧ rest ≠ []) := by
          constructor
          · rintro ⟨h1, _⟩; exact ⟨h1, hne⟩
          · rintro ⟨h1, _⟩
            refine ⟨h1, fun h2 => hcase ⟨h2, hroot.2 ⟨h1, hne⟩⟩⟩
        simp only [compsP, List.filterMap_cons, hmid, hf]
        by_cases hl : p0 = [] ∧ rest ≠ []
        · rw [if_pos hl, if_pos (hpre.2 hl)]
          cases bodyComp p0 <;> simp
        · rw [if_neg hl, if_neg (fun h => hl (hpre.1 h))]
          cases bodyComp p0 <;> simp

theorem dir_splits_last (p d : Str) (h : dir p = .ok d) :
    components d = (components p).dropLast ∧
    ∃ c, (components p).getLast? = some c ∧ c ≠ .root ∧ base p = .ok c.str := by
  have hspec := parentStr_spec p
  unfold dir at h
  cases hp : parentStr p with
  | none => rw [hp] at h; cases h
  | some d' =>
    rw [hp] at h hspec
    simp only [Outcome.ok.injEq] at h
    subst h
    obtain ⟨c, hc, hne⟩ := hspec
    refine ⟨by rw [hc]; simp, c, by rw [hc]; simp, hne, ?_⟩
    unfold base
    rw [hc]; simp

theorem dir_error_iff (p : Str) :
    (∃ k, dir p = .err k) ↔ (components p = [] ∨ components p = [.root]) := by
  have hspec := parentStr_spec p
  unfold dir
  cases hp : parentStr p with
  | none =>
    rw [hp] at hspec
    exact ⟨fun _ => hspec, fun _ => ⟨_, rfl⟩⟩
  | some d =>
    rw [hp] at hspec
    obtain ⟨c, hc, hne⟩ := hspec
    constructor
    · rintro ⟨k, hk⟩; cases hk
    · rintro (h | h)
      · rw [h] at hc; simp at hc
      · rw [h] at hc
        have := congrArg List.getLast? hc
        simp at this
        exact absurd this.symm hne

theorem trimLast_is_init (p : Str) : components (trimLast p) = (components p).dropLast := by
  have hspec := parentStr_spec p
  unfold trimLast
  cases hp : parentStr p with
  | none =>
    rw [hp] at hspec
    rcases hspec with h | h <;> simp [h, components_nil]
  | some d =>
    rw [hp] at hspec
    obtain ⟨c, hc, _⟩ := hspec
    simp [hc]

theorem compsP_tail (p0 : Str) (rest : List Str) :
    (compsP (p0 :: rest)).tail = rest.filterMap bodyComp := by
  by_cases h1 : p0 = []
  · subst h1
    by_cases h2 : rest = []
    · subst h2; decide
    · simp [compsP, h2, bodyComp_nil]
  · by_cases h2 : p0 = ['.']
    · subst h2; simp [compsP, bodyComp_dot]
    · obtain ⟨c, hc⟩ := isBody_bodyComp (isBody_eq_true h1 h2)
      simp [compsP, h1, h2, hc]

theorem trimFirst_is_tail (p : Str) : components (trimFirst p) = (components p).tail := by
  cases hs : splitSlash p with
  | nil => exact absurd hs (splitSlash_ne_nil p)
  | cons p0 rest =>
    have hslash := splitSlash_not_mem p
    rw [hs] at hslash
    rw [components_eq_compsP p, hs, compsP_tail]
    unfold trimFirst
    rw [hs]
    show components (joinWith '/' (dropTrailing nb (rest.dropWhile nb))) = _
    have hfm : (dropTrailing nb (rest.dropWhile nb)).filterMap bodyComp = rest.filterMap bodyComp := by
      rw [filterMap_dropTrailing bodyComp nb nonbody_none,
        filterMap_dropWhile bodyComp nb nonbody_none]
    cases hR : dropTrailing nb (rest.dropWhile nb) with
    | nil =>
      rw [hR] at hfm
      rw [← hfm]; decide
    | cons r0 R' =>
      have hsl : ∀ q ∈ r0 :: R', '/' ∉ q := by
        intro q hq
        rw [← hR] at hq
        have h1 := mem_of_mem_dropTrailing nb hq
        have h2 := (List.dropWhile_sublist nb (l := rest)).subset h1
        exact hslash q (by simp [h2])
      have hr0 : isBody r0 = true := by
        rcases dropTrailing_cases nb (rest.dropWhile nb) with ⟨h0, _⟩ | ⟨mid, t, h0, ht, tl, hD, _⟩
        · rw [h0] at hR; cases hR
        · rw [h0] at hR
          cases mid with
          | nil =>
            simp only [List.nil_append, List.cons.injEq] at hR
            rw [← hR.1]; simpa [nb] using ht
          | cons m0 mid' =>
            simp only [List.cons_append, List.cons.injEq] at hR
            have hne : rest.dropWhile nb ≠ [] := by rw [hD]; simp
            have := List.head_dropWhile_not nb hne
            simp only [hD, List.cons_append, List.head_cons] at this
            rw [← hR.1]; simpa [nb] using this
      have h1 : r0 ≠ [] := by rintro rfl; simp [isBody] at hr0
      have h2 : r0 ≠ ['.'] := by rintro rfl; simp [isBody] at hr0
      rw [components_joinWith (by simp) hsl, ← hfm, hR]
      simp [compsP, h1, h2]

/-! ### ext / trim_ext / name -/

theorem fileName_some {p n : Str} (h : fileName p = some n) :
    (components p).getLast? = some (.normal n) := by
  unfold fileName at h
  split at h
  · next c heq => simp only [Option.some.injEq] at h; subst h; exact heq
  · cases h

/-- an extension splits the file name as `stem ++ "." ++ e` with a non-empty stem -/
theorem extension_some {p e : Str} (h : extension p = some e) :
    ∃ stem, fileName p = some (stem ++ '.' :: e) ∧ stem ≠ [] := by
  unfold extension at h
  cases hn : fileName p with
  | none => rw [hn] at h; cases h
  | some n =>
    rw [hn] at h
    simp only at h
    have htd := List.takeWhile_append_dropWhile (p := fun x => decide (x ≠ '.')) (l := n.reverse)
    cases hd : n.reverse.dropWhile (fun x => decide (x ≠ '.')) with
    | nil => rw [hd] at h; cases h
    | cons x beforeRev =>
      rw [hd] at h htd
      simp only at h
      split at h
      · cases h
      · next hne =>
        simp only [Option.some.injEq] at h
        have hx : x = '.' := by
          have := List.head_dropWhile_not (fun x => decide (x ≠ '.')) (l := n.reverse)
            (by rw [hd]; exact List.cons_ne_nil _ _)
          simp only [hd, List.head_cons] at this
          simpa using this
        subst hx
        refine ⟨beforeRev.reverse, ?_, by simpa using hne⟩
        have h2 := congrArg List.reverse htd
        simp only [List.reverse_append, List.reverse_cons, List.reverse_reverse] at h2
        rw [← h2, h]
        simp

theorem mem_compsOK {cs : List Comp} (h : CompsOK cs) {c : Comp} (hc : c ∈ cs) :
    c = .root ∨ c = .cur ∨ BodyC c := by
  obtain ⟨body, hcs, hb⟩ := h
  rcases hcs with rfl | rfl | rfl
  · exact Or.inr (Or.inr (hb c hc))
  · rcases List.mem_cons.1 hc with rfl | hc
    · exact Or.inl rfl
    · exact Or.inr (Or.inr (hb c hc))
  · rcases List.mem_cons.1 hc with rfl | hc
    · exact Or.inr (Or.inl rfl)
    · exact Or.inr (Or.inr (hb c hc))

theorem fileName_bodyC {p n : Str} (h : fileName p = some n) : BodyC (.normal n) := by
  have h1 := fileName_some h
  have hmem : Comp.normal n ∈ components p := List.mem_of_getLast? h1
  rcases mem_compsOK (components_ok p) hmem with h | h | h
  · cases h
  · cases h
  · exact h

theorem getLast?_compsP_snoc {init : List Str} {y : Str} {c : Comp} (hc : bodyComp y = some c) :
    (compsP (init ++ [y])).getLast? = some c := by
  cases init with
  | nil =>
    simp only [List.nil_append, compsP, List.filterMap_cons_some hc, List.filterMap_nil]
    rw [List.getLast?_append]; simp
  | cons i0 irest =>
    simp only [List.cons_append, compsP]
    rw [← List.cons_append, List.filterMap_append, List.filterMap_cons_some hc,
      List.filterMap_nil, ← List.append_assoc]
    exact List.getLast?_concat

theorem trimExt_of_extension {p e n : Str} (he : extension p = some e)
    (hn : fileName p = some n) (hsuf : n <:+ p) :
    ∃ X stem, p = X ++ stem ++ '.' :: e ∧ stem ≠ [] ∧ n = stem ++ '.' :: e ∧
      trimExt p = .ok (X ++ stem) := by
  obtain ⟨stem, h1, h2⟩ := extension_some he
  rw [hn] at h1
  simp only [Option.some.injEq] at h1
  obtain ⟨X, hX⟩ := hsuf
  refine ⟨X, stem, by rw [← hX, h1]; simp, h2, h1, ?_⟩
  unfold trimExt
  rw [he]
  simp only
  have : p = (X ++ stem) ++ '.' :: e := by rw [← hX, h1]; simp
  rw [this, trimSuffixO_append]
  rfl

theorem trimExt_no_ext {p : Str} (h : extension p = none) : trimExt p = .ok p := by
  unfold trimExt; rw [h]

theorem ext_ok {p e : Str} (h : ext p = .ok e) : extension p = some e := by
  unfold ext at h
  cases he : extension p with
  | none => rw [he] at h; cases h
  | some e' => rw [he] at h; simp only [Outcome.ok.injEq] at h; rw [h]

theorem name_of_no_ext {p : Str} (h : extension p = none) : name p = nameSpec p := by
  unfold name nameSpec base
  rw [trimExt_no_ext h, h]
  cases hl : (components p).getLast? <;> simp [hl]

theorem name_of_ext {p e n : Str} (he : extension p = some e)
    (hn : fileName p = some n) (hsuf : n <:+ p)
    (hs : nameSpec p ≠ .ok ['.'] ∨ (components p).length < 2) : name p = nameSpec p := by
  obtain ⟨X, stem, hp, hstem, hnn, ht⟩ := trimExt_of_extension he hn hsuf
  have hlast := fileName_some hn
  have hbc := fileName_bodyC hn
  have hnslash : '/' ∉ n := hbc.2
  have hbn : bodyComp n = some (.normal n) := hbc.1
  have hnne : n ≠ [] := hbc.str_ne_nil
  have hndot : n ≠ ['.'] := hbc.str_ne_dot
  have hspec : nameSpec p = .ok stem := by
    unfold nameSpec
    rw [hlast, he]
    simp only [Comp.str, hnn]
    congr 1
    simp
  have hstslash : '/' ∉ stem := by
    intro h; apply hnslash; rw [hnn]; simp [h]
  obtain ⟨init, l, _, hsplit⟩ := splitOn_append_of_not_mem '/' X
  -- the last piece of `p` is exactly `n`
  have hpX : p = X ++ n := by rw [hp, hnn]; simp
  have hl : l = [] := by
    have h1 : splitSlash p = init ++ [l ++ n] := by rw [hpX]; exact hsplit n hnslash
    have hb1 : l ++ n ≠ [] := by simp [hnne]
    have hb2 : l ++ n ≠ ['.'] := by
      intro h
      cases l with
      | nil => exact hndot h
      | cons a l' =>
        simp only [List.cons_append, List.cons.injEq, List.append_eq_nil_iff] at h
        exact hnne h.2.2
    obtain ⟨c, hc⟩ := isBody_bodyComp (isBody_eq_true hb1 hb2)
    have h2 : (components p).getLast? = some c := by
      rw [components_eq_compsP, h1]; exact getLast?_compsP_snoc hc
    rw [hlast] at h2
    simp only [Option.some.injEq] at h2
    rw [← h2] at hc
    have := bodyComp_eq_normal hc
    simpa using this
  subst hl
  have hsp1 : splitSlash p = init ++ [n] := by
    rw [hpX]; simpa [splitSlash] using hsplit n hnslash
  have hsp2 : splitSlash (X ++ stem) = init ++ [stem] := by
    simpa [splitSlash] using hsplit stem hstslash
  unfold name
  rw [ht, hspec]
  simp only
  unfold base
  by_cases hdot : stem = ['.']
  · subst hdot
    have hlen : (components p).length < 2 := by
      rcases hs with h | h
      · exact absurd hspec h
      · exact h
    cases init with
    | nil =>
      rw [components_eq_compsP, hsp2]
      rfl
    | cons i0 irest =>
      exfalso
      rw [components_eq_compsP, hsp1] at hlen
      simp only [List.cons_append, compsP, List.length_append] at hlen
      by_cases h1 : i0 = []
      · subst h1
        simp at hlen
        rw [← List.cons_append, List.filterMap_append, List.filterMap_cons_some hbn] at hlen
        simp at hlen
        omega
      · by_cases h2 : i0 = ['.']
        · subst h2
          rw [← List.cons_append, List.filterMap_append, List.filterMap_cons_some hbn] at hlen
          simp at hlen
          omega
        · obtain ⟨c, hc⟩ := isBody_bodyComp (isBody_eq_true h1 h2)
          rw [← List.cons_append, List.filterMap_append, List.filterMap_cons_some hbn,
            List.filterMap_cons_some hc] at hlen
          simp at hlen
          omega
  · obtain ⟨c, hc⟩ := isBody_bodyComp (isBody_eq_true hstem hdot)
    rw [components_eq_compsP, hsp2, getLast?_compsP_snoc hc]
    simp only
    rw [bodyComp_str hc]

end Rivia.Lemmas
