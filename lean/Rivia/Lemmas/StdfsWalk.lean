/-
  Rivia.Lemmas.StdfsWalk — C02 §4 (continued): traversals that rewrite node attributes (`chown`,
  octal `chmod`).  Every step replaces the node at one key by `g node`, where `g` touches neither the
  kind nor the link target; the tree reached after visiting the set `S` of keys is therefore
  `gMap g S t` (the original tree with `g` applied on `S`), syntactically.
-/
import Rivia.Lemmas.StdfsList

namespace Rivia.Lemmas.StdfsL
open Rivia Rivia.Memfs Rivia.File Rivia.Spec Rivia.Spec.TreeFs Rivia.Posix Rivia.Stdfs
open Rivia.Lemmas.RefineA (TEquiv ResMatch get_put alLookup_alInsert mem_of_alLookup)
open Rivia.Stdfs.SM

variable {env : Env} {t : T}

/-- the tree with `g` applied to the nodes whose key is in `S` -/
def gMap (g : Node → Node) (S : FsPath → Bool) (t : T) : T :=
  { t with nodes := t.nodes.map (fun kv => if S kv.1 then (kv.1, g kv.2) else kv) }

/-- an attribute rewrite: kind and target untouched, idempotent -/
structure GOk (g : Node → Node) : Prop where
  kind : ∀ n, (g n).kind = n.kind
  target : ∀ n, (g n).target = n.target
  idem : ∀ n, g (g n) = g n

theorem keys_gMap (g : Node → Node) (S : FsPath → Bool) (t : T) :
    (gMap g S t).nodes.map (·.1) = t.nodes.map (·.1) := by
  unfold gMap
  simp only [List.map_map]
  apply List.map_congr_left
  intro kv _
  simp only [Function.comp]
  split <;> rfl

theorem get_gMap (g : Node → Node) (S : FsPath → Bool) (t : T) (k : FsPath) :
    get (gMap g S t) k = (get t k).map (fun n => if S k then g n else n) := by
  unfold TreeFs.get gMap
  simp only
  induction t.nodes with
  | nil => rfl
  | cons kv r ih =>
    obtain ⟨k0, v0⟩ := kv
    simp only [List.map_cons]
    by_cases hs : S k0 = true
    · simp only [hs, if_true, alLookup]
      by_cases h0 : k0 = k
      · subst h0; simp [hs]
      · simp only [h0, if_false]; exact ih
    · simp only [hs, Bool.false_eq_true, if_false, alLookup]
      by_cases h0 : k0 = k
      · subst h0; simp [hs]
      · simp only [h0, if_false]; exact ih

theorem gMap_congr (g : Node → Node) {S S' : FsPath → Bool} (t : T)
    (h : ∀ kv ∈ t.nodes, S kv.1 = S' kv.1) : gMap g S t = gMap g S' t := by
  unfold gMap
  congr 1
  apply List.map_congr_left
  intro kv hkv
  rw [h kv hkv]

theorem gMap_none (g : Node → Node) (t : T) : gMap g (fun _ => false) t = t := by
  unfold gMap
  simp

theorem alInsert_map_g (g : Node → Node) (S : FsPath → Bool) {k : FsPath} {n : Node} :
    ∀ {l : List (FsPath × Node)}, (l.map (·.1)).Nodup → alLookup k l = some n →
      alInsert k (g n) (l.map (fun kv => if S kv.1 then (kv.1, g kv.2) else kv)) =
        l.map (fun kv => if (S kv.1 || kv.1 == k) then (kv.1, g kv.2) else kv)
  | [], _, hk => by simp [alLookup] at hk
  | (k0, v0) :: r, hn, hk => by
    simp only [List.map_cons, List.nodup_cons] at hn
    simp only [alLookup] at hk
    by_cases h0 : k0 = k
    · subst h0
      simp only [if_true, Option.some.injEq] at hk
      subst hk
      have hne : ∀ (a : FsPath) (b : Node), (a, b) ∈ r → a ≠ k0 :=
        fun a b hab e => hn.1 (e ▸ List.mem_map.2 ⟨(a, b), hab, rfl⟩)
      by_cases hs : S k0 = true
      · simp [hs, alInsert]
        intro a b hab; simp [hne a b hab]
      · simp [hs, alInsert]
        intro a b hab; simp [hne a b hab]
    · simp only [h0, if_false] at hk
      have ih := alInsert_map_g g S hn.2 hk
      by_cases hs : S k0 = true
      · simp [hs, alInsert, h0, ih]
      · simp [hs, alInsert, h0, ih]

/-- rewriting one more key -/
theorem put_gMap (g : Node → Node) (S : FsPath → Bool) {t : T} (hn : (t.nodes.map (·.1)).Nodup)
    {k : FsPath} {n : Node} (hk : get t k = some n) :
    put (gMap g S t) k (g n) = gMap g (fun q => S q || q == k) t := by
  simp only [put, gMap]
  rw [alInsert_map_g g S hn hk]

theorem isDir_gMap {g : Node → Node} (hg : GOk g) (S : FsPath → Bool) (t : T) (k : FsPath) :
    isDir (gMap g S t) k = isDir t k := by
  unfold isDir
  rw [get_gMap]
  cases get t k with
  | none => rfl
  | some n =>
    simp only [Option.map_some]
    split <;> simp [hg.kind]

theorem get_gMap_some {g : Node → Node} {S : FsPath → Bool} {t : T} {k : FsPath} {n' : Node}
    (h : get (gMap g S t) k = some n') : ∃ n, get t k = some n ∧ n' = (if S k then g n else n) := by
  rw [get_gMap] at h
  cases hg : get t k with
  | none => rw [hg] at h; cases h
  | some n => rw [hg] at h; simp only [Option.map_some, Option.some.injEq] at h; exact ⟨n, rfl, h.symm⟩

theorem kind_gnode {g : Node → Node} (hg : GOk g) (b : Bool) (n : Node) : (if b then g n else n).kind = n.kind := by
  cases b <;> simp [hg.kind]
theorem target_gnode {g : Node → Node} (hg : GOk g) (b : Bool) (n : Node) :
    (if b then g n else n).target = n.target := by
  cases b <;> simp [hg.target]

theorem mem_gMap {g : Node → Node} {S : FsPath → Bool} {t : T} {kv' : FsPath × Node}
    (h : kv' ∈ (gMap g S t).nodes) : ∃ kv ∈ t.nodes, kv'.1 = kv.1 ∧ kv'.2 = (if S kv.1 then g kv.2 else kv.2) := by
  unfold gMap at h
  simp only [List.mem_map] at h
  obtain ⟨kv, hkv, he⟩ := h
  refine ⟨kv, hkv, ?_⟩
  by_cases hs : S kv.1 = true
  · simp only [hs, if_true] at he ⊢; rw [← he]; exact ⟨rfl, rfl⟩
  · simp only [hs, Bool.false_eq_true, if_false] at he ⊢; rw [← he]; exact ⟨rfl, rfl⟩

theorem resolve_gMap (g : Node → Node) (S : FsPath → Bool) (t : T) (p : Str) :
    resolve env (gMap g S t) p = resolve env t p := rfl

theorem absK_gMap {g : Node → Node} (hg : GOk g) (S : FsPath → Bool) (t : T) (p : Str) :
    absK env (gMap g S t) p = absK env t p :=
  absK_congr t (gMap g S t) rfl (isDir_gMap hg S t _) p

/-- the state hypotheses survive an attribute rewrite -/
theorem ctx_gMap {g : Node → Node} (hg : GOk g) (S : FsPath → Bool) (h : Ctx env t) : Ctx env (gMap g S t) := by
  refine ⟨⟨?_, ?_, ?_⟩, ?_, ?_, ?_⟩
  · rw [keys_gMap]; exact h.wf.nodup
  · rw [isDir_gMap hg]; exact h.wf.root
  · intro k n' hk hne
    obtain ⟨n, hn, _⟩ := get_gMap_some hk
    rw [isDir_gMap hg]; exact h.wf.parent k n hn hne
  · have hl := h.links
    unfold LinksOk linksOkB at hl ⊢
    rw [List.all_eq_true] at hl ⊢
    intro kv' hkv'
    obtain ⟨kv, hkv, _, h2⟩ := mem_gMap hkv'
    have := hl kv hkv
    rw [h2, kind_gnode hg, target_gnode hg]
    cases hk : kv.2.kind with
    | dir => rfl
    | file => rfl
    | link b =>
      simp only [hk] at this ⊢
      cases ht : kv.2.target with
      | none => simp [ht] at this
      | some tg =>
        simp only [ht] at this ⊢
        rw [get_gMap]
        cases hm : get t tg with
        | none => simp [hm] at this
        | some m =>
          simp only [hm, Option.map_some] at this ⊢
          rw [kind_gnode hg]; exact this
  · have ht := h.text
    unfold linkTextOkB at ht ⊢
    rw [List.all_eq_true] at ht ⊢
    intro kv' hkv'
    obtain ⟨kv, hkv, h1, h2⟩ := mem_gMap hkv'
    have := ht kv hkv
    rw [h2, kind_gnode hg, target_gnode hg, h1]
    simp only [absK_gMap hg]
    exact this
  · rw [isDir_gMap hg]; exact h.cwd

theorem keysRT_gMap (g : Node → Node) (S : FsPath → Bool) (hrt : keysRT env t = true) :
    keysRT env (gMap g S t) = true := by
  unfold keysRT at hrt ⊢
  rw [List.all_eq_true] at hrt ⊢
  intro kv' hkv'
  obtain ⟨kv, hkv, h1, _⟩ := mem_gMap hkv'
  rw [h1]; exact hrt kv hkv

/-! ### the pre-order walk with an attribute rewrite (`_chown`) -/

/-- `max_depth(if recursive { usize::MAX } else { 0 })` -/
def recDepth (rc : Bool) : Option Nat := if rc then none else some 0

theorem belowMax_recDepth (rc : Bool) (d : Nat) : belowMax d (recDepth rc) = rc := by
  cases rc <;> simp [recDepth, belowMax]

theorem childNames_gMap (g : Node → Node) (S : FsPath → Bool) (t : T) (a : FsPath) :
    (childNodes (gMap g S t) a).map (fun kv => baseName kv.1) = (childNodes t a).map (fun kv => baseName kv.1) := by
  unfold childNodes gMap
  simp only [List.filter_map, List.map_map]
  have hf : (fun kv : FsPath × Node => decide (kv.1.length = a.length + 1) && isProperPrefix a kv.1) ∘
      (fun kv : FsPath × Node => if S kv.1 = true then (kv.1, g kv.2) else kv) =
      (fun kv : FsPath × Node => decide (kv.1.length = a.length + 1) && isProperPrefix a kv.1) := by
    funext kv
    simp only [Function.comp]
    split <;> rfl
  rw [hf]
  apply List.map_congr_left
  intro kv _
  simp only [Function.comp]
  split <;> rfl

theorem entryFor_gnode {g : Node → Node} (hg : GOk g) {k : FsPath} {n : Node} {e : SEntry} (b : Bool)
    (he : EntryFor k (if b then g n else n) e) : EntryFor k n e := by
  obtain ⟨h1, h2, h3, h4⟩ := he
  rw [kind_gnode hg] at h2 h3 h4
  exact ⟨h1, h2, h3, h4⟩

/-- below a real directory: "some child's walk visits `k`" = "`k` is a descendant" -/
theorem any_child_vis (h : Ctx env t) {a k : FsPath} {m : Node} (hm : get t k = some m) :
    (childNodes t a).any (fun kv => vis t true kv.1 k) = isProperPrefix a k := by
  cases hp : isProperPrefix a k with
  | false =>
    rw [List.any_eq_false]
    intro kv hkv hv
    obtain ⟨_, x, hx⟩ := child_get h hkv
    unfold vis at hv
    simp only [Bool.true_and, Bool.or_eq_true, beq_iff_eq, Bool.and_eq_true] at hv
    have : isProperPrefix a k = true := by
      rcases hv with h1 | ⟨_, h1⟩
      · rw [h1, hx]; exact isProperPrefix_append a (by simp)
      · obtain ⟨z, hz, hkz⟩ := (isProperPrefix_iff kv.1 k).1 h1
        rw [hkz, hx, List.append_assoc]; exact isProperPrefix_append a (by simp)
    rw [hp] at this; cases this
  | true =>
    rw [List.any_eq_true]
    obtain ⟨x, hx, hkx⟩ := (isProperPrefix_iff a k).1 hp
    match x, hx, hkx with
    | w :: z, _, hkx =>
      by_cases hz : z = []
      · subst hz
        refine ⟨(a ++ [w], m), mem_childNodes.2 ⟨by rw [← hkx]; exact mem_of_alLookup hm, w, rfl⟩, ?_⟩
        unfold vis; simp [hkx]
      · have hpp : isProperPrefix (a ++ [w]) k = true := by
          rw [hkx, show a ++ w :: z = (a ++ [w]) ++ z by simp]
          exact isProperPrefix_append _ hz
        have hdc := ancestor_isDir h.wf hm hpp
        obtain ⟨nc, hnc, _⟩ := isDir_iff.1 hdc
        refine ⟨(a ++ [w], nc), mem_childNodes.2 ⟨mem_of_alLookup hnc, w, rfl⟩, ?_⟩
        unfold vis; simp [hdc, hpp]

theorem walkPre_succ (stepf : SEntry → SM Unit) (M : Option Nat) (f d : Nat) (e : SEntry) (t : T) :
    walkPre env stepf M (f + 1) d e t =
      if e.dir && !e.link && belowMax d M then
        match readDir t e.path with
        | .error er => (.err (ioErr er), t)
        | .ok names =>
          match stepf e t with
          | (.ok (), t1) =>
            names.foldl (walkStep env (walkPre env stepf M f (d + 1)) e.path) ((.ok (), t1) : Outcome Unit × T)
          | r => r
      else stepf e t := by
  rw [walkPre]
  split <;> rfl

/-- the walk, for a step function that rewrites the node of a non-link entry -/
theorem walkPre_gMap (h : Ctx env t) (hrt : keysRT env t = true) {g : Node → Node} (hg : GOk g)
    (stepf : SEntry → SM Unit)
    (hstep : ∀ (S : FsPath → Bool) (k : FsPath) (n : Node) (x : SEntry), get t k = some n →
      isLinkKind n.kind = false → x.path = k →
      stepf x (gMap g S t) = (.ok (), gMap g (fun q => S q || q == k) t))
    (rc : Bool) :
    ∀ (f d : Nat) (a : FsPath) (n : Node) (e : SEntry) (S : FsPath → Bool), get t a = some n → EntryFor a n e →
      (∀ k m, get t k = some m → isProperPrefix a k = true → k.length ≤ a.length + f) →
      isLinkKind n.kind = false →
      (rc = true → ∀ k m, get t k = some m → isProperPrefix a k = true → isLinkKind m.kind = false) →
      walkPre env stepf (recDepth rc) (f + 1) d e (gMap g S t) =
        (.ok (), gMap g (fun k => S k || vis t rc a k) t) := by
  intro f
  induction f with
  | zero =>
    intro d a n e S hg' he hfuel hnl hnls
    rw [walkPre_succ]
    simp only [entry_real_dir he, belowMax_recDepth]
    by_cases hgo : n.kind = .dir ∧ rc = true
    · -- a real directory, but (fuel) nothing below it
      have hd : isDir t a = true := isDir_of_get hg' hgo.1
      have hnone : childNodes t a = [] := by
        cases hc : childNodes t a with
        | nil => rfl
        | cons kv r =>
          exfalso
          have hkv : kv ∈ childNodes t a := by rw [hc]; exact List.mem_cons_self
          obtain ⟨hgc, x, hx⟩ := child_get h hkv
          have := hfuel kv.1 kv.2 hgc (by rw [hx]; exact isProperPrefix_append a (by simp))
          rw [hx] at this; simp at this; omega
      have hrd := readDir_dir (ctx_gMap hg S h) (a := a) (by rw [isDir_gMap hg]; exact hd)
      rw [childNames_gMap, hnone] at hrd
      simp only [hgo.1, hgo.2, decide_true, Bool.and_self, if_true, he.path, hrd, List.map_nil,
        hstep S a n e hg' hnl he.path, List.foldl_nil]
      congr 1
      apply gMap_congr
      intro kv hkv
      unfold vis
      by_cases hp : isProperPrefix a kv.1 = true
      · exfalso
        have hgk := alLookup_of_mem_nodup h.wf.nodup hkv
        have := hfuel kv.1 kv.2 hgk hp
        obtain ⟨x, hx, he'⟩ := (isProperPrefix_iff a kv.1).1 hp
        have hl : 0 < x.length := List.length_pos_iff.mpr hx
        rw [he'] at this; simp at this; omega
      · simp [hp]
    · have hcond : (decide (n.kind = Kind.dir) && rc) = false := by
        by_cases hk : n.kind = .dir
        · cases rc with
          | true => exact absurd ⟨hk, rfl⟩ hgo
          | false => simp
        · simp [hk]
      simp only [hcond, Bool.false_eq_true, if_false, hstep S a n e hg' hnl he.path]
      congr 1
      apply gMap_congr
      intro kv _
      unfold vis
      have : (rc && isDir t a) = false := by
        by_cases hk : n.kind = .dir
        · cases rc with
          | true => exact absurd ⟨hk, rfl⟩ hgo
          | false => simp
        · rw [isDir_false_of_kind hg' hk]; simp
      simp [this]
  | succ f ih =>
    intro d a n e S hg' he hfuel hnl hnls
    rw [walkPre_succ]
    simp only [entry_real_dir he, belowMax_recDepth]
    by_cases hgo : n.kind = .dir ∧ rc = true
    · obtain ⟨hk, hrc⟩ := hgo
      subst hrc
      have hd : isDir t a = true := isDir_of_get hg' hk
      have hrd := readDir_dir (ctx_gMap hg S h) (a := a) (by rw [isDir_gMap hg]; exact hd)
      rw [childNames_gMap] at hrd
      simp only [hk, decide_true, Bool.and_self, if_true, he.path, hrd, hstep S a n e hg' hnl he.path]
      -- the loop over the children
      have hfold : ∀ (cs : List (FsPath × Node)), (∀ kv ∈ cs, kv ∈ childNodes t a) → ∀ S1 : FsPath → Bool,
          (cs.map (fun kv => baseName kv.1)).foldl
              (walkStep env (walkPre env stepf (recDepth true) (f + 1) (d + 1)) a) (.ok (), gMap g S1 t) =
            (.ok (), gMap g (fun k => S1 k || cs.any (fun kv => vis t true kv.1 k)) t) := by
        intro cs
        induction cs with
        | nil =>
          intro _ S1
          simp only [List.map_nil, List.foldl_nil, List.any_nil, Bool.or_false]
        | cons kv cs ihc =>
          intro hsub S1
          have hkv := hsub kv List.mem_cons_self
          obtain ⟨hgc, x, hx⟩ := child_get h hkv
          have hname : a ++ [baseName kv.1] = kv.1 := by rw [hx, baseName_snoc]
          have hgc' : get (gMap g S1 t) kv.1 = some (if S1 kv.1 then g kv.2 else kv.2) := by
            rw [get_gMap, hgc]; rfl
          obtain ⟨c, hc, hef⟩ := entryFrom_key (ctx_gMap hg S1 h) (keysRT_gMap g S1 hrt) hgc'
          have hef' := entryFor_gnode hg _ hef
          have hpk : isProperPrefix a kv.1 = true := by rw [hx]; exact isProperPrefix_append a (by simp)
          have hwalk := ih (d + 1) kv.1 kv.2 c S1 hgc hef'
            (by
              intro k m hm hp
              obtain ⟨z, hz, hkz⟩ := (isProperPrefix_iff kv.1 k).1 hp
              have := hfuel k m hm (by rw [hkz, hx, List.append_assoc]; exact isProperPrefix_append a (by simp))
              rw [hx]; simp only [List.length_append, List.length_cons, List.length_nil]; omega)
            (hnls rfl kv.1 kv.2 hgc hpk)
            (by
              intro _ k m hm hp
              obtain ⟨z, hz, hkz⟩ := (isProperPrefix_iff kv.1 k).1 hp
              exact hnls rfl k m hm (by rw [hkz, hx, List.append_assoc]; exact isProperPrefix_append a (by simp)))
          simp only [List.map_cons, List.foldl_cons, walkStep, hname, hc, hwalk]
          rw [ihc (fun kv' hkv' => hsub kv' (List.mem_cons_of_mem _ hkv'))]
          congr 1
          apply gMap_congr
          intro kv' _
          simp only [List.any_cons, Bool.or_assoc]
      rw [hfold (childNodes t a) (fun _ hkv => hkv)]
      congr 1
      apply gMap_congr
      intro kv' hkv'
      have hgk := alLookup_of_mem_nodup h.wf.nodup hkv'
      rw [any_child_vis h hgk]
      unfold vis
      simp only [hd, Bool.true_and, Bool.or_assoc]
    · have hcond : (decide (n.kind = Kind.dir) && rc) = false := by
        by_cases hk : n.kind = .dir
        · cases rc with
          | true => exact absurd ⟨hk, rfl⟩ hgo
          | false => simp
        · simp [hk]
      simp only [hcond, Bool.false_eq_true, if_false, hstep S a n e hg' hnl he.path]
      congr 1
      apply gMap_congr
      intro kv _
      unfold vis
      have : (rc && isDir t a) = false := by
        by_cases hk : n.kind = .dir
        · cases rc with
          | true => exact absurd ⟨hk, rfl⟩ hgo
          | false => simp
        · rw [isDir_false_of_kind hg' hk]; simp
      simp [this]

/-! ### chown -/

def ownG (uid gid : Option Nat) (n : Node) : Node := { n with uid := uid.getD n.uid, gid := gid.getD n.gid }

theorem ownG_ok (uid gid : Option Nat) : GOk (ownG uid gid) := by
  refine ⟨fun _ => rfl, fun _ => rfl, ?_⟩
  intro n
  cases uid <;> cases gid <;> rfl

theorem chown_step (h : Ctx env t) (uid gid : Option Nat) (S : FsPath → Bool) (k : FsPath) (n : Node) (x : SEntry)
    (hk : get t k = some n) (hnl : isLinkKind n.kind = false) (hx : x.path = k) :
    (sysM (Posix.chown · x.path uid gid) : SM Unit) (gMap (ownG uid gid) S t) =
      (.ok (), gMap (ownG uid gid) (fun q => S q || q == k) t) := by
  have hg := ownG_ok uid gid
  have hc := ctx_gMap hg S h
  have hgk : get (gMap (ownG uid gid) S t) k = some (if S k then ownG uid gid n else n) := by
    rw [get_gMap, hk]; rfl
  have hnl' : isLinkKind (if S k then ownG uid gid n else n).kind = false := by rw [kind_gnode hg]; exact hnl
  simp only [SM.sysM, hx, Posix.chown, linkFuel]
  rw [followFinal_nonlink hc.wf hgk hnl']
  simp only [hgk]
  have : ({ (if S k = true then ownG uid gid n else n) with
      uid := uid.getD (if S k = true then ownG uid gid n else n).uid,
      gid := gid.getD (if S k = true then ownG uid gid n else n).gid } : Node) = ownG uid gid n := by
    by_cases hs : S k = true
    · simp only [hs, if_true]; exact hg.idem n
    · simp only [hs, Bool.false_eq_true, if_false]; rfl
  rw [this, put_gMap _ S h.wf.nodup hk]

theorem sim_chownK (h : Ctx env t) (p : Str) (uid gid : Option Nat) (rc : Bool)
    (hok : chownOkB env t p rc = true) :
    Sim (Stdfs.mapVal (fun _ => .unit) (Stdfs.chown env p { uid := uid, gid := gid, follow := false, recursive := rc }) t)
      (withPath env t p fun a => liftR (fun _ => .unit) (TreeFs.chown t a uid gid rc)) := by
  unfold chownOkB at hok
  rw [Bool.and_eq_true] at hok
  obtain ⟨hrt, hok2⟩ := hok
  unfold Stdfs.chown withPath Stdfs.mapVal
  simp only [Bool.false_eq_true, if_false, absK_eq h.cwd]
  cases hr : resolve env t p with
  | ok a =>
    rw [hr] at hok2
    simp only [Bool.and_eq_true, decide_eq_true_eq, List.all_eq_true, Bool.or_eq_true,
      Bool.not_eq_true'] at hok2
    obtain ⟨hidem, hnolink⟩ := hok2
    unfold TreeFs.chown
    dsimp only
    cases hg : get t a with
    | none =>
      rw [entryFrom_missing h hidem hg]
      simp only [liftR]
      exact sim_err _ _ (TEquiv.refl _)
    | some n =>
      obtain ⟨e, he, hef⟩ := entryFrom_key h hrt hg
      obtain ⟨f, hf, _⟩ := walkFuel_ok hg
      have hfuel : ∀ k m, get t k = some m → isProperPrefix a k = true → k.length ≤ a.length + f := by
        intro k m hm _
        obtain ⟨f', hf', hmax'⟩ := walkFuel_ok hm
        rw [hf] at hf'; have : f = f' := by omega
        omega
      have hnl : ∀ k m, get t k = some m → vis t rc a k = true → isLinkKind m.kind = false := by
        intro k m hm hv
        rcases hnolink (k, m) (mem_of_alLookup hm) with h1 | h1
        · rw [hv] at h1; cases h1
        · exact h1
      have hwalk := walkPre_gMap h hrt (ownG_ok uid gid) (fun x => sysM (Posix.chown · x.path uid gid))
        (fun S k n x hk hnl' hx => chown_step h uid gid S k n x hk hnl' hx) rc f 0 a n e (fun _ => false) hg hef hfuel
        (hnl a n hg (by unfold vis; simp))
        (by
          intro hrc k m hm hp
          apply hnl k m hm
          obtain ⟨z, hz, hkz⟩ := (isProperPrefix_iff a k).1 hp
          have hd : isDir t a = true := ancestor_isDir h.wf hm hp
          unfold vis; simp [hrc, hd, hp])
      rw [gMap_none] at hwalk
      have hdep : (if rc = true then none else some 0 : Option Nat) = recDepth rc := rfl
      simp only [he, hf, hdep, hwalk, liftR]
      refine ⟨by simp, fun _ => ?_⟩
      have : gMap (ownG uid gid) (fun k => false || vis t rc a k) t =
          { t with nodes := t.nodes.map (fun kv =>
              if (decide (kv.1 = a) || (rc && isProperPrefix a kv.1 && isDir t a)) = true
              then (kv.1, { kv.2 with uid := uid.getD kv.2.uid, gid := gid.getD kv.2.gid }) else kv) } := by
        unfold gMap
        congr 1
        apply List.map_congr_left
        intro kv _
        have hb : (false || vis t rc a kv.1) = (decide (kv.1 = a) || (rc && isProperPrefix a kv.1 && isDir t a)) := by
          unfold vis
          by_cases h1 : kv.1 = a
          · simp [h1]
          · have hbe : (kv.1 == a) = false := by simp [h1]
            rw [hbe]; simp only [h1, decide_false, Bool.false_or]
            cases rc <;> cases isDir t a <;> cases isProperPrefix a kv.1 <;> rfl
        show (if (false || vis t rc a kv.1) = true then _ else _) = _
        rw [hb]; rfl
      rw [this]
      exact TEquiv.refl _
  | err e => exact sim_err _ _ (TEquiv.refl _)
  | panic => exact sim_unspec _ _
  | hang => exact sim_unspec _ _

end Rivia.Lemmas.StdfsL
