/-
  Rivia.Lemmas.StdfsWfStep — every syscall of `Rivia.Model.Posix` keeps the tree well-formed
  (`StdfsL.Wf`: distinct keys, `/` a directory, the parent of every other key a directory), and so does
  every computation of the `SM` monad built from them.

  Layout
  * §1 `Wf` from its three facts; `put` / `del` / subtree removal / cwd change keep them
  * §2 the syscalls (all but `rename`, which is in StdfsWfStepMove)
  * §3 the preservation predicate `Pres` on `SM` computations and its combinators
-/
import Rivia.Lemmas.StdfsMain
import Rivia.Lemmas.SimCongr

namespace Rivia.Lemmas.StdfsWf
open Rivia Rivia.Memfs Rivia.File Rivia.Spec Rivia.Spec.TreeFs Rivia.Posix Rivia.Stdfs
open Rivia.Lemmas.StdfsL
open Rivia.Lemmas.RefineA (get_put mem_of_alLookup)
open Rivia.Stdfs.SM

/-! ## §1 the three facts -/

theorem wf_of_facts {t : T} (h : WfFacts t) : StdfsL.Wf t := by
  unfold StdfsL.Wf wfB
  simp only [Bool.and_eq_true, decide_eq_true_eq, List.all_eq_true, Bool.or_eq_true]
  refine ⟨⟨h.nodup, h.root⟩, fun kv hkv => ?_⟩
  by_cases h0 : kv.1 = []
  · exact Or.inl h0
  · obtain ⟨v, hv⟩ := alLookup_isSome_of_mem (List.mem_map.2 ⟨kv, hkv, rfl⟩)
    exact Or.inr (h.parent kv.1 v hv h0)

theorem wf_iff_facts {t : T} : StdfsL.Wf t ↔ WfFacts t := ⟨wf_facts, wf_of_facts⟩

theorem parent_of_get {t : T} (h : WfFacts t) {k : FsPath} {n : Node} (hg : get t k = some n) :
    k = [] ∨ isDir t k.dropLast = true := by
  by_cases hk : k = []
  · exact Or.inl hk
  · exact Or.inr (h.parent k n hg hk)

theorem isDir_put {t : T} {k q : FsPath} {x : Node} (hq : isDir t q = true)
    (hx : isDir t k = true → x.kind = .dir) : isDir (put t k x) q = true := by
  by_cases hkq : k = q
  · subst hkq
    exact isDir_iff.2 ⟨x, get_put_self t k x, hx hq⟩
  · obtain ⟨n, hn, hkd⟩ := isDir_iff.1 hq
    exact isDir_iff.2 ⟨n, by rw [get_put, if_neg hkq]; exact hn, hkd⟩

/-- `put` keeps the tree well-formed when the parent of the key is a directory and a directory is not
    replaced by something else -/
theorem facts_put {t : T} (h : WfFacts t) {k : FsPath} (x : Node)
    (hd : k = [] ∨ isDir t k.dropLast = true) (hx : isDir t k = true → x.kind = .dir) :
    WfFacts (put t k x) := by
  refine ⟨Sim.nodupK_put h.nodup k x, isDir_put h.root hx, ?_⟩
  intro q n hq hne
  rw [get_put] at hq
  by_cases hkq : k = q
  · subst hkq
    rcases hd with hd | hd
    · exact absurd hd hne
    · exact isDir_put hd hx
  · rw [if_neg hkq] at hq
    exact isDir_put (h.parent q n hq hne) hx

theorem facts_put_same {t : T} (h : WfFacts t) {k : FsPath} {n : Node} (x : Node)
    (hg : get t k = some n) (hk : x.kind = n.kind) : WfFacts (put t k x) := by
  refine facts_put h x (parent_of_get h hg) ?_
  intro hd
  obtain ⟨m, hm, hmk⟩ := isDir_iff.1 hd
  rw [hg] at hm; cases hm
  rw [hk, hmk]

theorem facts_put_missing {t : T} (h : WfFacts t) {k : FsPath} (x : Node)
    (hg : get t k = none) (hw : walkErr t k = none) : WfFacts (put t k x) := by
  refine facts_put h x ((walkErr_none_iff h k).1 hw) ?_
  intro hd
  obtain ⟨m, hm, _⟩ := isDir_iff.1 hd
  rw [hg] at hm; cases hm

theorem dropLast_properPrefix {q : FsPath} (h : q ≠ []) : isProperPrefix q.dropLast q = true := by
  rw [isProperPrefix_iff]
  exact ⟨[q.getLast h], by simp, (List.dropLast_concat_getLast h).symm⟩

theorem facts_del {t : T} (h : WfFacts t) {k : FsPath} (hne : k ≠ [])
    (hb : ∀ q, (get t q).isSome → isProperPrefix k q = false) : WfFacts (del t k) := by
  refine ⟨Sim.nodupK_del h.nodup k, ?_, ?_⟩
  · obtain ⟨n, hn, hk⟩ := isDir_iff.1 h.root
    exact isDir_iff.2 ⟨n, by rw [StdfsL.get_del h, if_neg (Ne.symm hne)]; exact hn, hk⟩
  · intro q n hq hq0
    rw [StdfsL.get_del h] at hq
    by_cases hqk : q = k
    · rw [if_pos hqk] at hq; cases hq
    · rw [if_neg hqk] at hq
      obtain ⟨m, hm, hmk⟩ := isDir_iff.1 (h.parent q n hq hq0)
      have hne2 : q.dropLast ≠ k := by
        intro e
        have := hb q (by rw [hq]; rfl)
        rw [← e, dropLast_properPrefix hq0] at this; cases this
      exact isDir_iff.2 ⟨m, by rw [StdfsL.get_del h, if_neg hne2]; exact hm, hmk⟩

theorem prefixOrEq_dropLast {k q : FsPath} (h : isPrefixOrEq k q.dropLast = true) : isPrefixOrEq k q = true := by
  rw [RefineB.isPrefixOrEq_iff] at h ⊢
  exact h.trans (List.dropLast_prefix q)

/-- removing a whole subtree (not the root) keeps the tree well-formed -/
theorem facts_filter_sub {t : T} (h : WfFacts t) {k : FsPath} (hne : k ≠ []) :
    WfFacts { t with nodes := t.nodes.filter (fun kv => !(isPrefixOrEq k kv.1)) } := by
  refine ⟨Sim.nodupK_filter h.nodup _, ?_, ?_⟩
  · obtain ⟨n, hn, hk⟩ := isDir_iff.1 h.root
    refine isDir_iff.2 ⟨n, ?_, hk⟩
    rw [get_filter_prefix]
    have : isPrefixOrEq k [] = false := by
      cases k with
      | nil => exact absurd rfl hne
      | cons a r => rfl
    rw [this]; exact hn
  · intro q n hq hq0
    rw [get_filter_prefix] at hq
    by_cases hp : isPrefixOrEq k q = true
    · rw [if_pos hp] at hq; cases hq
    · rw [if_neg hp] at hq
      obtain ⟨m, hm, hmk⟩ := isDir_iff.1 (h.parent q n hq hq0)
      refine isDir_iff.2 ⟨m, ?_, hmk⟩
      rw [get_filter_prefix, if_neg (fun hp' => hp (prefixOrEq_dropLast hp'))]
      exact hm

theorem facts_cwd {t : T} (h : WfFacts t) (c : FsPath) : WfFacts { t with cwd := c } :=
  ⟨h.nodup, h.root, h.parent⟩

/-! ## §2 the syscalls -/

theorem followFinal_walk {t : T} : ∀ (f : Nat) (k k' : FsPath), followFinal t f k = .ok k' → walkErr t k' = none := by
  intro f
  induction f with
  | zero => intro k k' h; cases h
  | succ f ih =>
    intro k k' h
    simp only [followFinal] at h
    cases hw : walkErr t k with
    | some e => rw [hw] at h; cases h
    | none =>
      rw [hw] at h
      cases hg : get t k with
      | none => rw [hg] at h; cases h; exact hw
      | some n =>
        rw [hg] at h
        simp only at h
        split at h
        · exact ih _ _ h
        · cases h
        · cases h; exact hw

theorem wf_mkdir {t t' : T} {k : FsPath} {m : Nat} (h : WfFacts t) (e : Posix.mkdir t k m = .ok t') :
    WfFacts t' := by
  unfold Posix.mkdir at e
  split at e
  · cases e
  · cases hw : walkErr t k with
    | some er => rw [hw] at e; cases e
    | none =>
      rw [hw] at e
      cases hg : get t k with
      | some n => rw [hg] at e; cases e
      | none => rw [hg] at e; cases e; exact facts_put_missing h _ hg hw

theorem wf_rmdir {t t' : T} {k : FsPath} (h : WfFacts t) (e : rmdir t k = .ok t') : WfFacts t' := by
  unfold rmdir at e
  split at e
  · cases e
  · rename_i hne
    cases hw : walkErr t k with
    | some er => rw [hw] at e; cases e
    | none =>
      rw [hw] at e
      cases hg : get t k with
      | none => rw [hg] at e; cases e
      | some n =>
        rw [hg] at e
        simp only at e
        split at e
        · cases e
        · split at e
          · cases e
          · rename_i hb
            cases e
            refine facts_del h hne ?_
            have hb' : (below t k).isEmpty = true := by simpa using hb
            exact (Sim.below_isEmpty_iff t k).1 hb'

theorem wf_unlink {t t' : T} {k : FsPath} (h : WfFacts t) (e : unlink t k = .ok t') : WfFacts t' := by
  unfold unlink at e
  split at e
  · cases e
  · rename_i hne
    cases hw : walkErr t k with
    | some er => rw [hw] at e; cases e
    | none =>
      rw [hw] at e
      cases hg : get t k with
      | none => rw [hg] at e; cases e
      | some n =>
        rw [hg] at e
        simp only at e
        split at e
        · cases e
        · rename_i hk
          cases e
          refine facts_del h hne ?_
          intro q hq
          cases hp : isProperPrefix k q with
          | false => rfl
          | true =>
            have := get_below_none h (isDir_false_of_kind hg hk) hp
            rw [this] at hq; cases hq

theorem wf_createDirAll : ∀ (f : Nat) (k : FsPath) (t t' : T), WfFacts t →
    createDirAll t f k = .ok t' → WfFacts t' := by
  intro f
  induction f with
  | zero => intro k t t' _ e; cases e
  | succ f ih =>
    intro k t t' h e
    simp only [createDirAll] at e
    split at e
    · rename_i t1 hm; cases e; exact wf_mkdir h hm
    · split at e
      · cases e
      · split at e
        · cases e
        · rename_i t1 h1
          have hw1 := ih _ _ _ h h1
          split at e
          · rename_i t2 hm; cases e; exact wf_mkdir hw1 hm
          · split at e
            · cases e; exact hw1
            · cases e
    · split at e
      · cases e; exact h
      · cases e

theorem wf_removeDirAll {t t' : T} {k : FsPath} (h : WfFacts t) (e : removeDirAll t k = .ok t') :
    WfFacts t' := by
  unfold removeDirAll at e
  split at e
  · cases e
  · split at e
    · exact wf_unlink h e
    · cases e
    · split at e
      · cases e
      · rename_i hne; cases e; exact facts_filter_sub h hne

theorem wf_createFile {t t' : T} {k fk : FsPath} (h : WfFacts t) (e : createFile t k = .ok (fk, t')) :
    WfFacts t' := by
  unfold createFile at e
  split at e
  · cases e
  · rename_i k' hf
    have hw := followFinal_walk _ _ _ hf
    split at e
    · cases e
    · cases hg : get t k' with
      | none => rw [hg] at e; cases e; exact facts_put_missing h _ hg hw
      | some n =>
        rw [hg] at e
        simp only at e
        split at e
        · cases e; exact facts_put_same h _ hg rfl
        · cases e

theorem wf_writeFd {t : T} (h : WfFacts t) (k : FsPath) (d : Bytes) : WfFacts (writeFd t k d) := by
  unfold writeFd
  cases hg : get t k with
  | none => exact h
  | some n => exact facts_put_same h _ hg rfl

theorem wf_chmod {t t' : T} {k : FsPath} {m : Nat} (h : WfFacts t) (e : Posix.chmod t k m = .ok t') :
    WfFacts t' := by
  unfold Posix.chmod at e
  split at e
  · cases e
  · rename_i k' _
    cases hg : get t k' with
    | none => rw [hg] at e; cases e
    | some n => rw [hg] at e; cases e; exact facts_put_same h _ hg rfl

theorem wf_chown {t t' : T} {k : FsPath} {u g : Option Nat} (h : WfFacts t)
    (e : Posix.chown t k u g = .ok t') : WfFacts t' := by
  unfold Posix.chown at e
  split at e
  · cases e
  · rename_i k' _
    cases hg : get t k' with
    | none => rw [hg] at e; cases e
    | some n => rw [hg] at e; cases e; exact facts_put_same h _ hg rfl

theorem wf_symlinkat {t t' : T} {k tg : FsPath} (h : WfFacts t) (e : symlinkat t k tg = .ok t') :
    WfFacts t' := by
  unfold symlinkat at e
  split at e
  · cases e
  · cases hw : walkErr t k with
    | some er => rw [hw] at e; cases e
    | none =>
      rw [hw] at e
      cases hg : get t k with
      | some n => rw [hg] at e; cases e
      | none => rw [hg] at e; cases e; exact facts_put_missing h _ hg hw

theorem wf_chdir {t t' : T} {k : FsPath} (h : WfFacts t) (e : chdir t k = .ok t') : WfFacts t' := by
  unfold chdir at e
  split at e
  · cases e
  · rename_i k' _
    cases hg : get t k' with
    | none => rw [hg] at e; cases e
    | some n =>
      rw [hg] at e
      simp only at e
      split at e
      · cases e; exact facts_cwd h _
      · cases e

theorem wf_copyFile {t t' : T} {s d : FsPath} (h : WfFacts t) (e : copyFile t s d = .ok t') : WfFacts t' := by
  unfold copyFile at e
  split at e
  · cases e
  · rename_i sn _
    split at e
    · cases e
    · split at e
      · cases e
      · cases e
      · rename_i ks kd _ hfd
        have hw := followFinal_walk _ _ _ hfd
        split at e
        · cases e
        · cases hg : get t kd with
          | none =>
            simp only [hg] at e
            have h1 := facts_put_missing h ({ newFile with perm := applyUmask sn.perm }) hg hw
            split at e
            · rename_i dn' hg1; cases e; exact facts_put_same h1 _ hg1 rfl
            · cases e; exact h1
          | some dn =>
            simp only [hg] at e
            by_cases hk : dn.kind = .file
            · rw [if_pos hk] at e
              simp only at e
              have h1 := facts_put_same h ({ dn with data := [] }) hg rfl
              split at e
              · rename_i dn' hg1; cases e; exact facts_put_same h1 _ hg1 rfl
              · cases e; exact h1
            · rw [if_neg hk] at e
              cases e

/-! ## §3 computations of the `SM` monad -/

/-- the computation keeps the tree well-formed, whatever it returns -/
def Pres {α} (m : SM α) : Prop := ∀ t, StdfsL.Wf t → StdfsL.Wf (m t).2

theorem pres_same {α} {m : SM α} (h : ∀ t, (m t).2 = t) : Pres m := fun t hw => by rw [h]; exact hw

theorem pres_pure {α} (a : α) : Pres (Pure.pure a : SM α) := pres_same fun _ => rfl
theorem pres_pure' {α} (a : α) : Pres (SM.pure a : SM α) := pres_same fun _ => rfl
theorem pres_fail {α} (k : ErrKind) : Pres (SM.fail k : SM α) := pres_same fun _ => rfl
theorem pres_getT : Pres SM.getT := pres_same fun _ => rfl
theorem pres_liftO {α} (o : Outcome α) : Pres (SM.liftO o) := pres_same fun _ => rfl
theorem pres_qry {α} (f : T → Except Errno α) : Pres (SM.qry f) := pres_same fun _ => rfl
theorem pres_absM (env : Env) (p : Str) : Pres (Stdfs.absM env p) := pres_same fun _ => rfl
theorem pres_dirOf (k : FsPath) : Pres (Stdfs.dirOf k) := by
  unfold Stdfs.dirOf; split
  · exact pres_fail _
  · exact pres_pure' _

theorem pres_bind {α β} {m : SM α} {f : α → SM β} (hm : Pres m) (hf : ∀ a, Pres (f a)) : Pres (m >>= f) := by
  intro t hw
  rw [SM_bind_apply]
  have h1 := hm t hw
  rcases hmt : m t with ⟨o, t'⟩
  rw [hmt] at h1
  cases o with
  | ok a => exact hf a t' h1
  | err k => exact h1
  | panic => exact h1
  | hang => exact h1

theorem pres_sysM {f : T → Except Errno T} (hf : ∀ t t', WfFacts t → f t = .ok t' → WfFacts t') :
    Pres (SM.sysM f) := by
  intro t hw
  unfold SM.sysM
  cases e : f t with
  | ok t' => exact wf_of_facts (hf t t' (wf_facts hw) e)
  | error er => exact hw

theorem pres_mapVal {α} {v : α → Val} {m : SM α} (hm : Pres m) : Pres (Stdfs.mapVal v m) := by
  intro t hw
  unfold Stdfs.mapVal
  have h1 := hm t hw
  rcases hmt : m t with ⟨o, t'⟩
  rw [hmt] at h1
  cases o <;> exact h1

theorem pres_forM {α} {f : α → SM Unit} (hf : ∀ a, Pres (f a)) : ∀ (l : List α), Pres (l.forM f)
  | [] => pres_pure _
  | a :: l => by
    show Pres (f a >>= fun _ => l.forM f)
    exact pres_bind (hf a) fun _ => pres_forM hf l

end Rivia.Lemmas.StdfsWf
