/-
  Rivia.Lemmas.MacrosWit — concrete witnesses for the C20 findings, evaluated through the closed
  forms of Rivia.Lemmas.Macros (never by running `abs` in the kernel).
-/
import Rivia.Lemmas.Macros
import Rivia.Lemmas.MacrosAct
import Rivia.Lemmas.MacrosCopy

set_option linter.unusedSimpArgs false

namespace Rivia.MacroLemmas
open Rivia Rivia.Memfs Rivia.Memfs.M Rivia.File Rivia.Spec Rivia.Spec.TreeFs Rivia.Macros
open Rivia.Spec.MacroSpec Rivia.Lemmas.RefineA

/-! ### resolving literal clean absolute paths -/

theorem keyOf_lit (env : Env) (s : State) {p : Str} (hr : isRooted p = true) (hn : Lemmas.NormalForm p)
    (hs : Lemmas.NoSpecial p) : keyOf env s p = some (toPath p) := by
  rw [keyOf_eq, Lemmas.absWith_fixed env _ hr hn hs]

theorem stable_lit (env : Env) (s : State) {a : FsPath} (hn : Lemmas.NormalForm (renderP a))
    (hs : Lemmas.NoSpecial (renderP a)) (ht : toPath (renderP a) = a) : Stable env s a := by
  unfold Stable
  rw [keyOf_lit env s rfl hn hs, ht]

/-! ### the witness states (current directory `/`) -/

def nmF : Str := ['f']
def nmL : Str := ['l']
def nmC : Str := ['c']
def kF : FsPath := [nmF]
def kL : FsPath := [nmL]
def kC : FsPath := [nmC]
def pF : Str := ['/', 'f']
def pL : Str := ['/', 'l']
def pRoot : Str := ['/']
def pABC : Str := ['/', 'a', '/', 'b', '/', 'c']
def kABC : FsPath := [['a'], ['b'], ['c']]

def rootWith (names : List Str) : Entry := { mkDirEntry [] none with files := some names }

/-- `old` -/
def bytesOld : Bytes := [111, 108, 100]
/-- `new` -/
def bytesNew : Bytes := [110, 101, 119]

/-- `/f` is a regular file with content "old" -/
def sFile : State :=
  { entries := [([], rootWith [nmF]), (kF, mkFileEntry kF)], files := [(kF, bytesOld)],
    cwd := [], root := [], handles := [] }

/-- `/l` is a link to `/c` (which does not exist) -/
def linkE : Entry :=
  { path := kL, alt := some kC, rel := nmC, dir := false, file := true, link := true, mode := 0o120777,
    uid := 1000, gid := 1000, follow := false, cached := false, files := none }

def sLink : State :=
  { entries := [([], rootWith [nmL]), (kL, linkE)], files := [], cwd := [], root := [], handles := [] }

theorem stateOk_init : StateOk Memfs.init := by decide
theorem stateOk_sFile : StateOk sFile := by decide
theorem stateOk_sLink : StateOk sLink := by decide

theorem key_root (env : Env) (s : State) : keyOf env s pRoot = some [] :=
  keyOf_lit env s rfl (by decide) (by decide)
theorem key_pF (env : Env) (s : State) : keyOf env s pF = some kF :=
  keyOf_lit env s rfl (by decide) (by decide)
theorem key_pL (env : Env) (s : State) : keyOf env s pL = some kL :=
  keyOf_lit env s rfl (by decide) (by decide)
theorem key_pABC (env : Env) (s : State) : keyOf env s pABC = some kABC :=
  keyOf_lit env s rfl (by decide) (by decide)

theorem stable_root (env : Env) (s : State) : Stable env s [] := stable_lit env s (by decide) (by decide) rfl
theorem stable_kF (env : Env) (s : State) : Stable env s kF := stable_lit env s (by decide) (by decide) rfl
theorem stable_kL (env : Env) (s : State) : Stable env s kL := stable_lit env s (by decide) (by decide) rfl

theorem stableArg_of {env : Env} {s : State} {p : Str} {a : FsPath} (hk : keyOf env s p = some a)
    (hs : Stable env s a) : StableArg env s p := by
  unfold StableArg; rw [hk]; exact hs

/-! ### (A4) `no_dir` / `no_file` on a path that exists as something else -/

theorem wit_noDir_run (env : Env) :
    runMacro env sFile (.noDir pF) = (pm "assert_vfs_no_dir!" "exists and is not a directory", sFile) := by
  simp only [runMacro, absK_eq, key_pF, boolK_exists, boolK_isDir, eTest_stable (stable_kF env sFile)]
  rfl

theorem wit_noDir_spec (env : Env) : checkSpec env sFile (.noDir pF) = true := by
  simp only [checkSpec, resolvable_key (key_pF env sFile), pIsDir_key (key_pF env sFile)]
  rfl

theorem wit_noFile_run (env : Env) :
    runMacro env Memfs.init (.noFile pRoot) = (pm "assert_vfs_no_file!" "exists and is not a file", Memfs.init) := by
  simp only [runMacro, absK_eq, key_root, boolK_exists, boolK_isFile, eTest_stable (stable_root env Memfs.init)]
  rfl

theorem wit_noFile_spec (env : Env) : checkSpec env Memfs.init (.noFile pRoot) = true := by
  simp only [checkSpec, resolvable_key (key_root env Memfs.init),
    pIsFile_key stateOk_init (key_root env Memfs.init)]
  rfl

/-! ### (A3, repaired) the "exists but is not a symlink" branch of `is_symlink` names the macro -/

theorem wit_isSymlink_run (env : Env) :
    runMacro env Memfs.init (.isSymlink pRoot) =
      (.panic "assert_vfs_is_symlink!" (some "exists but is not a symlink"), Memfs.init) := by
  simp only [runMacro, absK_eq, key_root, boolK_exists, boolK_isSymlink, eTest_stable (stable_root env Memfs.init)]
  rfl

/-! ### (A2, repaired) `readlink_abs` compares keys: a path that merely ends in the target fails -/

def pC : Str := ['/', 'c']

theorem key_pC (env : Env) (s : State) : keyOf env s pC = some kC :=
  keyOf_lit env s rfl (by decide) (by decide)

theorem wit_readlinkAbs_spec (env : Env) : checkSpec env sLink (.readlinkAbs pL pABC) = false := by
  simp only [checkSpec, key_pABC, pLinksTo, nodeOf_key (key_pL env sLink)]
  decide

theorem wit_readlinkAbs_spec_ok (env : Env) : checkSpec env sLink (.readlinkAbs pL pC) = true := by
  simp only [checkSpec, key_pC, pLinksTo, nodeOf_key (key_pL env sLink)]
  decide

/-! ### (A5) the macros resolve their path argument twice -/

def nmH : Str := ['h', '~', 'x']
def kH : FsPath := [nmH]

/-- `/h~x` (the home directory of `envTildeHome`) is a regular file -/
def sTilde : State :=
  { entries := [([], rootWith [nmH]), (kH, mkFileEntry kH)], files := [(kH, [])],
    cwd := [], root := [], handles := [] }

theorem stateOk_sTilde : StateOk sTilde := by decide

theorem key_tilde (s : State) : keyOf Lemmas.envTildeHome s ['~'] = some kH := by
  rw [keyOf_eq, Lemmas.abs_tilde_envTildeHome]
  decide

theorem key_home_none (s : State) : keyOf Lemmas.envTildeHome s (renderP kH) = none := by
  have h : renderP kH = "/h~x".toList := by decide
  rw [keyOf_eq, h, Lemmas.abs_home_envTildeHome]

theorem wit_double_run :
    runMacro Lemmas.envTildeHome sTilde (.exists ['~']) = (pm "assert_vfs_exists!" "doesn't exist", sTilde) := by
  simp only [runMacro, absK_eq, key_tilde, boolK_exists, eTest, key_home_none]
  rfl

theorem wit_double_spec : checkSpec Lemmas.envTildeHome sTilde (.exists ['~']) = true := by
  simp only [checkSpec, pExists_key (key_tilde sTilde)]
  rfl

theorem wit_double_unstable : ¬ StableArg Lemmas.envTildeHome sTilde ['~'] := by
  unfold StableArg Stable
  rw [key_tilde]
  simp only [key_home_none]
  simp

/-! ### acting macros on paths that exist -/

theorem stableArg_pF (env : Env) (s : State) : StableArg env s pF := stableArg_of (key_pF env s) (stable_kF env s)
theorem stableArg_pL (env : Env) (s : State) : StableArg env s pL := stableArg_of (key_pL env s) (stable_kL env s)

theorem sFile_exists (env : Env) : pExists env sFile pF = true := by
  rw [pExists_key (key_pF env sFile)]; rfl
theorem sFile_isFile (env : Env) : pIsFile env sFile pF = true := by
  rw [pIsFile_key stateOk_sFile (key_pF env sFile)]; rfl

/-- the state after `write_all("/f", "new")`, from the empty filesystem or from `sFile` -/
def sWritten : State :=
  { entries := [([], rootWith [nmF]), (kF, mkFileEntry kF)], files := [(kF, bytesNew)],
    cwd := [], root := [], handles := [] }

theorem stateOk_sWritten : StateOk sWritten := by decide

theorem step_writeAll_sFile (env : Env) :
    step env sFile (.writeAll pF bytesNew) = (.ok .unit, sWritten) := by
  simp only [step, writeAllM]
  msimp [absM_of_key (key_pF env sFile)]
  decide

theorem sWritten_content (env : Env) : pHasBytes env sWritten pF bytesNew = true := by
  simp only [pHasBytes, nodeOf_key (key_pF env sWritten)]; decide

theorem wit_writeAll_content_old (env : Env) : pHasBytes env sFile pF bytesOld = true := by
  simp only [pHasBytes, nodeOf_key (key_pF env sFile)]; decide

theorem macroSpec_writeAll_sFile (env : Env) :
    macroSpec env sFile (.writeAll pF bytesNew) = (true, sWritten) := by
  rw [macroSpec_of_not_noop rfl]
  simp only [opOf, step_writeAll_sFile, postSpec, sWritten_content, Outcome.isOk, Bool.and_self]

/-- (A1, repaired) `/f` holds "old": `assert_vfs_write_all!(vfs, "/f", "new")` passes and now writes -/
theorem wit_writeAll_run (env : Env) : runMacro env sFile (.writeAll pF bytesNew) = (.pass, sWritten) := by
  have hpost : StateOk (macroSpec env sFile (.writeAll pF bytesNew)).2 := by
    rw [macroSpec_writeAll_sFile]; exact stateOk_sWritten
  obtain ⟨h1, h2⟩ := act_writeAll (stableArg_pF env sFile) hpost
  rw [macroSpec_writeAll_sFile] at h1 h2
  have h3 := h1.2 rfl
  exact Prod.ext h3 (h2 h3)

/-- `assert_vfs_mkfile!`: an existing file is accepted untouched (documented) -/
theorem wit_mkfile_run (env : Env) : runMacro env sFile (.mkfile pF) = (.pass, sFile) := by
  obtain ⟨h1, h2⟩ := mkfile_present stateOk_sFile (stableArg_pF env sFile) (sFile_exists env)
  exact Prod.ext (h2.2 (sFile_isFile env)) h1

theorem macroSpec_mkfile_sFile (env : Env) : macroSpec env sFile (.mkfile pF) = (true, sFile) :=
  macroSpec_of_noop (sFile_isFile env)

theorem sLink_exists (env : Env) : pExists env sLink pL = true := by
  rw [pExists_key (key_pL env sLink)]; rfl
theorem sLink_isLink (env : Env) : pIsLink env sLink pL = true := by
  rw [pIsLink_key (key_pL env sLink)]; rfl

/-- `/l → /c`; `assert_vfs_symlink!(vfs, "/l", "/f")` passes and the link still points to `/c`
    (documented: "If the symlink exists no change is made") -/
theorem wit_symlink_run (env : Env) : runMacro env sLink (.symlink pL pF) = (.pass, sLink) := by
  obtain ⟨h1, h2⟩ := symlink_present (t := pF) (stableArg_pL env sLink) (sLink_exists env)
  exact Prod.ext (h2.2 (sLink_isLink env)) h1

theorem macroSpec_symlink_sLink (env : Env) : macroSpec env sLink (.symlink pL pF) = (true, sLink) :=
  macroSpec_of_noop (sLink_isLink env)

theorem wit_symlink_target (env : Env) :
    pLinksTo env sLink pL kC = true ∧ pLinksTo env sLink pL kF = false := by
  simp only [pLinksTo, nodeOf_key (key_pL env sLink)]; decide

/-! ### non-vacuity: a state in which `write_all` is really performed -/

theorem step_writeAll_init (env : Env) :
    step env Memfs.init (.writeAll pF bytesNew) = (.ok .unit, sWritten) := by
  simp only [step, writeAllM]
  msimp [absM_of_key (key_pF env Memfs.init)]
  decide

theorem postOk_writeAll_init (env : Env) : PostOk env Memfs.init (.writeAll pF bytesNew) := by
  simp only [PostOk, macroSpec_of_not_noop (m := .writeAll pF bytesNew) rfl, opOf, step_writeAll_init]
  decide

theorem init_absent_pF (env : Env) : pExists env Memfs.init pF = false := by
  rw [pExists_key (key_pF env Memfs.init)]; rfl

/-! ### `copyfile`: a positive example, and (A6, repaired) a source that is not valid UTF-8 -/

def nmG : Str := ['g']
def kG : FsPath := [nmG]
def pG : Str := ['/', 'g']

theorem key_pG (env : Env) (s : State) : keyOf env s pG = some kG :=
  keyOf_lit env s rfl (by decide) (by decide)
theorem stable_kG (env : Env) (s : State) : Stable env s kG := stable_lit env s (by decide) (by decide) rfl
theorem stableArg_pG (env : Env) (s : State) : StableArg env s pG := stableArg_of (key_pG env s) (stable_kG env s)

/-- `/f` and `/g` both hold `bytes` -/
def sTwo (bytes : Bytes) : State :=
  { entries := [([], rootWith [nmF, nmG]), (kF, mkFileEntry kF), (kG, mkFileEntry kG)],
    files := [(kF, bytes), (kG, bytes)], cwd := [], root := [], handles := [] }

theorem step_copy_sFile (env : Env) : step env sFile (.copy pF pG) = (.ok .unit, sTwo bytesOld) := by
  simp only [step, copyM]
  msimp [absM_of_key (key_pF env sFile), absM_of_key (key_pG env sFile)]
  decide

/-- the byte 0xFF: not UTF-8 -/
def bytesBin : Bytes := [255]

/-- `/f` is a regular file holding the single byte 0xFF -/
def sBin : State :=
  { entries := [([], rootWith [nmF]), (kF, mkFileEntry kF)], files := [(kF, bytesBin)],
    cwd := [], root := [], handles := [] }

theorem stateOk_sBin : StateOk sBin := by decide
theorem stateOk_sTwo_bin : StateOk (sTwo bytesBin) := by decide
theorem stateOk_sTwo_old : StateOk (sTwo bytesOld) := by decide

theorem step_copy_sBin (env : Env) : step env sBin (.copy pF pG) = (.ok .unit, sTwo bytesBin) := by
  simp only [step, copyM]
  msimp [absM_of_key (key_pF env sBin), absM_of_key (key_pG env sBin)]
  decide

/-- the copy is correct: `/g` is a regular file with the bytes of `/f` -/
theorem macroSpec_copyfile_sBin (env : Env) : macroSpec env sBin (.copyfile pF pG) = (true, sTwo bytesBin) := by
  rw [macroSpec_of_not_noop rfl]
  simp only [opOf, step_copy_sBin, postSpec, nodeOf_key (key_pF env _), pHasBytes, nodeOf_key (key_pG env _)]
  decide

/-- ... and the macro passes: it compares the bytes (`read` + `read_to_end`), `[0xFF] = [0xFF]`
    (before the repair it compared `read_all` texts and panicked with "failed reading src file") -/
theorem wit_copyfile_bin_run (env : Env) :
    runMacro env sBin (.copyfile pF pG) = (.pass, sTwo bytesBin) := by
  have hsp := (step_copy_spell (key_pF env sBin) (stable_kF env sBin) (key_pG env sBin) (stable_kG env sBin)).trans
    (step_copy_sBin env)
  have h1 : eAt sBin kF (fun _ => true) = true := by decide
  have h2 : eAt sBin kF (fun e => e.file && !e.link) = true := by decide
  have h3 : eAt (sTwo bytesBin) kG (fun e => e.file && !e.link) = true := by decide
  have hreadF : step env (sTwo bytesBin) (.read (renderP kF)) = (.ok (.bytes bytesBin), sTwo bytesBin) := by
    rw [step_read_key (stable_kF env _)]
    decide
  have hreadG : step env (sTwo bytesBin) (.read (renderP kG)) = (.ok (.bytes bytesBin), sTwo bytesBin) := by
    rw [step_read_key (stable_kG env _)]
    decide
  simp only [runMacro, absK_eq, key_pF, key_pG, boolK_exists, boolK_isFile,
    eTest_stable (stable_kF env sBin), eTest_stable (stable_kG env (sTwo bytesBin)), call_of hsp, h1, h2, h3,
    contOf, Bool.not_true, Bool.false_eq_true, if_false, call_of hreadF, call_of hreadG, ne_eq,
    not_true_eq_false]

theorem sTwo_bin_content (env : Env) : pHasBytes env (sTwo bytesBin) pG bytesBin = true := by
  simp only [pHasBytes, nodeOf_key (key_pG env _)]
  decide

/-- `read_all` on the same file still fails (the text API cannot return 0xFF) — the macro no longer uses it -/
theorem readAll_bin_err (env : Env) :
    step env (sTwo bytesBin) (.readAll pF) = (.err .ioInvalidData, sTwo bytesBin) := by
  rw [step_readAll_key (key_pF env _)]
  decide

theorem macroSpec_copyfile_sFile (env : Env) : macroSpec env sFile (.copyfile pF pG) = (true, sTwo bytesOld) := by
  rw [macroSpec_of_not_noop rfl]
  simp only [opOf, step_copy_sFile, postSpec, nodeOf_key (key_pF env _), pHasBytes, nodeOf_key (key_pG env _)]
  decide

end Rivia.MacroLemmas
