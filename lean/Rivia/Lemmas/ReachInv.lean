/-
  Rivia.Lemmas.ReachInv — the side invariants of the C01 refinement theorems along histories.

  * `EntriesOk` (`RefineA`): per entry `dir = !file`, the mode is canonical (the type bits of the kind plus
    permission bits only — `mode_canon_of_entryOk`; holds since the `mode_type_bits` repair), a link
    has a target and `rel` is that target relative to the link's directory;
  * `KeysW` (= `Lemmas.KeysWf` of CopyMove): every name of every key and of the cwd is a proper name
    (non-empty, no `/`, not `.`, not `..`) — stronger than the `KeysWf` of the C03 induction, which
    allows `..`.

  Both are kept by the 47 operations of `InvA.CoveredA` (through `StepAInv`), by `remove`,
  `remove_all`, `symlink` (through the `Tr` calculus of MoveLinkRel) and by `move_p`
  (`EntriesOk`: MoveLinkRel; `KeysW`: from `moveLoop_spec`).
-/
import Rivia.Lemmas.InvAll
import Rivia.Lemmas.RefineA
import Rivia.Lemmas.RefineB
import Rivia.Lemmas.MoveLinkRel
import Rivia.Lemmas.MoveP
import Rivia.Lemmas.AbsWf

namespace Rivia.Lemmas.Reach
open Rivia Rivia.Memfs Rivia.Memfs.M Rivia.File Rivia.Spec Rivia.Spec.TreeFs Rivia.Lemmas
open Rivia.Lemmas.MoveLinkRel (AllEnts Tr tr_bind tr_pure tr_mpure tr_fail tr_hang tr_liftO tr_get tr_dirOf)

/-- every name of every key and of the cwd is a proper name (no `..`) -/
abbrev KeysW (s : State) : Prop := Rivia.Lemmas.KeysWf s

abbrev EOk (s : State) : Prop := RefineA.EntriesOk s

/-! ### per-entry facts -/

theorem entryOk_setOwner (k : FsPath) (e : Entry) (u g : Option Nat) :
    RefineA.entryOkB k (e.setOwner u g) = RefineA.entryOkB k e := rfl

theorem entryOk_setMode {k : FsPath} {e : Entry} (m : Nat) (h : RefineA.entryOkB k e = true) :
    RefineA.entryOkB k (e.setMode m) = true := by
  have hk : kindOf (e.setMode m) = kindOf e := rfl
  simp only [RefineA.entryOkB, Bool.and_eq_true, decide_eq_true_eq, Bool.or_eq_true,
    Bool.not_eq_true'] at h ⊢
  obtain ⟨⟨h1, _⟩, h3⟩ := h
  have hm : (e.setMode m).mode = (m &&& 0o7777) ||| typeBits (kindOf e) := by
    show optsMode e.link e.file e.dir (some m) = _
    rw [ModeBits.optsMode_some]
    unfold kindOf
    cases hl : e.link <;> cases hf : e.file <;> rw [hf] at h1 <;>
      simp only [Bool.not_false, Bool.not_true] at h1 <;>
      simp only [h1, Bool.false_eq_true, if_false, if_true, typeBits]
  have hT : typeBits (kindOf e) = 0o40000 ∨ typeBits (kindOf e) = 0o100000 ∨ typeBits (kindOf e) = 0o120000 := by
    cases kindOf e <;> simp [typeBits]
  refine ⟨⟨h1, ?_, ?_⟩, h3⟩
  · rw [hk, hm]; exact RefineA.or_and_self _ _
  · rw [hk, hm, ModeBits.or_sub_typeBits _ _ (ModeBits.and_perm_lt m) hT]
    exact ModeBits.and_perm_lt m

theorem entriesOk_mem {s : State} (h : EOk s) {kv : FsPath × Entry} (hm : kv ∈ s.entries) :
    RefineA.entryOkB kv.1 kv.2 = true := List.all_eq_true.mp h _ hm

theorem entriesOk_at {s : State} (h : EOk s) {k : FsPath} {e : Entry} (hk : alLookup k s.entries = some e) :
    RefineA.entryOkB k e = true := entriesOk_mem h (RefineA.mem_of_alLookup hk)

/-- `EntriesOk` makes every stored mode canonical: permission bits plus the type bits of the kind
    (and so its `S_IFMT` bits are exactly the type bits of the kind) -/
theorem mode_canon_of_entryOk {k : FsPath} {e : Entry} (h : RefineA.entryOkB k e = true) :
    (e.mode &&& 0o7777) ||| typeBits (kindOf e) = e.mode ∧ e.mode &&& 0o170000 = typeBits (kindOf e) := by
  simp only [RefineA.entryOkB, Bool.and_eq_true, decide_eq_true_eq] at h
  obtain ⟨hw, hp⟩ := h.1.2
  have hm := RefineA.or_sub_of_and_eq _ _ hw
  have hT0 : typeBits (kindOf e) &&& 0o7777 = 0 := by cases kindOf e <;> simp [typeBits]
  have hTT : typeBits (kindOf e) &&& 0o170000 = typeBits (kindOf e) := by
    cases kindOf e with
    | dir => exact (by decide : (0o40000 : Nat) &&& 0o170000 = 0o40000)
    | file => exact (by decide : (0o100000 : Nat) &&& 0o170000 = 0o100000)
    | link b => exact (by decide : (0o120000 : Nat) &&& 0o170000 = 0o120000)
  generalize typeBits (kindOf e) = T at *
  generalize hq : e.mode - T = q at *
  have hq' : q &&& 0o7777 = q := ModeBits.and_perm_of_lt q hp
  have h1 : e.mode &&& 0o7777 = q := by
    rw [← hm, Nat.and_or_distrib_right, hT0, hq']; simp
  constructor
  · rw [h1, Nat.or_comm]; exact hm
  · have := ModeBits.type_of_or q T hTT
    rw [hq', Nat.or_comm, hm] at this
    exact this

/-! ### group A (46 constructors) through `StepAInv` -/

theorem stepAInv_entriesOk : InvA.StepAInv EOk (fun _ => True) where
  addFile := fun p _ => ⟨RefineA.es_add _ (RefineA.entryOk_mkFileEntry p)⟩
  mkdir := fun p m _ => ⟨RefineA.es_mkdirM p m⟩
  sync := fun p b => ⟨RefineA.es_syncM p b⟩
  cwd := fun _ _ _ h => h
  handles := fun _ _ h => h
  setMode := fun s k e m h hk =>
    RefineA.all_alInsert _ _ _ _ h (entryOk_setMode m (entriesOk_at h hk))
  setOwner := fun s k e u g h hk =>
    RefineA.all_alInsert _ _ _ _ h (by rw [entryOk_setOwner]; exact entriesOk_at h hk)

theorem entriesOk_step_A (env : Env) (s : State) (op : Op) (hc : InvA.CoveredA op) (h : EOk s) :
    EOk (step env s op).2 :=
  stepAInv_entriesOk.step env s op hc (fun _ _ _ _ => trivial) h

theorem KeysW.replace {s : State} (h : KeysW s) {k : FsPath} {e : Entry} (e' : Entry)
    (hk : alLookup k s.entries = some e) : KeysW { s with entries := alInsert k e' s.entries } := by
  refine ⟨?_, h.2⟩
  intro kv hkv
  rcases InvA.mem_alInsert hkv with rfl | hkv
  · exact h.1 (k, e) (InvA.mem_of_alLookup hk)
  · exact h.1 kv hkv

theorem KeysW.add (e : Entry) (hq : WfKey e.path) : InvA.Pres KeysW (Memfs.add e) := by
  constructor
  intro s h
  have := InvA.add_allE (P := fun k _ => WfKey k) e h.1 hq (fun d b d' hm _ => h.1 _ hm)
  exact ⟨this.1, this.2 ▸ h.2⟩

theorem stepAInv_keysW : InvA.StepAInv KeysW WfKey where
  addFile := fun p hp => KeysW.add _ hp
  mkdir := by
    intro p m hp
    unfold Memfs.mkdirM
    apply InvA.Pres.forM_mem
    intro q hq
    obtain ⟨n, rfl⟩ := InvA.mem_prefixes hq
    apply InvA.Pres.bind (KeysW.add _ (fun x hx => hp x (List.mem_of_mem_take hx)))
    intro _; exact InvA.Pres.pure _
  sync := fun p b => ⟨fun s h => by
    have := InvA.syncM_entries p b s
    exact ⟨this.1 ▸ h.1, this.2 ▸ h.2⟩⟩
  cwd := fun p s hp h => ⟨h.1, hp⟩
  handles := fun _ _ h => h
  setMode := fun _ _ _ _ h hk => h.replace _ hk
  setOwner := fun _ _ _ _ _ h hk => h.replace _ hk

theorem absQ_keysW (env : Env) (s : State) (h : KeysW s) : InvA.StepAInv.AbsQ WfKey env s := by
  intro raw a s' ha
  have h2 := InvA.absM_snd env raw s
  rw [ha] at h2
  simp only at h2
  subst h2
  exact absM_wf h.2 ha

theorem keysW_step_A (env : Env) (s : State) (op : Op) (hc : InvA.CoveredA op) (h : KeysW s) :
    KeysW (step env s op).2 :=
  stepAInv_keysW.step env s op hc (absQ_keysW env s h) h

/-! ### `remove`, `remove_all`, `symlink`: a per-entry predicate together with a well-formed cwd -/

/-- what the three operations need of a per-entry predicate -/
structure EntStable (P : FsPath → Entry → Prop) : Prop where
  rmChild : ∀ k e n e', P k e → e.removeChild n = .ok e' → P k e'
  addChild : ∀ k e n b e', P k e → e.addChild n = .ok (b, e') → P k e'

/-- every stored pair satisfies `P` and the cwd is a well-formed key -/
def KI (P : FsPath → Entry → Prop) (s : State) : Prop := AllEnts P s ∧ WfKey s.cwd

section ki
variable {P : FsPath → Entry → Prop}

theorem tr_lift {α} {m : M α} {Q : α → Prop} (h : Tr (AllEnts P) m Q) (hc : ∀ s, (m s).2.cwd = s.cwd) :
    Tr (KI P) m Q :=
  fun s hs => ⟨⟨(h s hs.1).1, by rw [hc s]; exact hs.2⟩, (h s hs.1).2⟩

theorem k_getEntry (p : FsPath) : Tr (KI P) (getEntry p) (fun o => ∀ e, o = some e → P p e) :=
  tr_lift (MoveLinkRel.tr_getEntry p) (fun _ => rfl)
theorem k_removeEntry (p : FsPath) : Tr (KI P) (removeEntry p) (fun _ => True) :=
  tr_lift (MoveLinkRel.tr_weaken (MoveLinkRel.tr_removeEntry p) (fun _ _ => trivial)) (fun _ => rfl)
theorem k_setEntry {p : FsPath} {e : Entry} (h : P p e) : Tr (KI P) (setEntry p e) (fun _ => True) :=
  tr_lift (MoveLinkRel.tr_setEntry h) (fun _ => rfl)
theorem k_removeFile (p : FsPath) : Tr (KI P) (removeFile p) (fun _ => True) :=
  tr_lift (MoveLinkRel.tr_removeFile p) (fun _ => rfl)

theorem k_absM (env : Env) (p : Str) : Tr (KI P) (absM env p) WfKey := by
  intro s hs
  have h2 : (absM env p s).2 = s := InvA.absM_snd env p s
  refine ⟨by rw [h2]; exact hs, fun a ha => ?_⟩
  have : absM env p s = (.ok a, s) := Prod.ext ha h2
  exact absM_wf hs.2 this

theorem k_add (hP : EntStable P) (e : Entry) (he : P e.path e) : Tr (KI P) (Memfs.add e) (fun _ => True) := by
  intro s hs
  refine ⟨?_, fun _ _ => trivial⟩
  rcases InvC.add_cases0 e s with h1 | ⟨d, b, d', hd, hac, h1⟩
  · rw [h1]; exact hs
  · rw [h1]
    refine ⟨?_, hs.2⟩
    intro kv hkv
    rcases InvC.mem_alInsert hkv with rfl | hkv
    · exact hP.addChild _ d _ b d' (hs.1 _ (InvC.mem_of_alLookup hd)) hac
    · rcases InvC.mem_alInsert hkv with rfl | hkv
      · exact he
      · exact hs.1 kv hkv

/-- `m >>= k` where `m` is one of the state-pure branch ends of a `match` -/
macro "tr_skip" : tactic => `(tactic|
  (first
    | (refine tr_bind (tr_mpure (Q := fun _ => True) _ trivial) ?_; intro _ _)
    | (refine tr_bind (tr_pure (Q := fun _ => True) _ trivial) ?_; intro _ _)
    | (refine tr_bind (tr_fail (Q := fun _ => True) _) ?_; intro _ _)))

theorem removeM_tr (hP : EntStable P) (env : Env) (p : Str) :
    Tr (KI P) (removeM env p) (fun _ => True) := by
  unfold removeM
  refine tr_bind (k_absM _ _) ?_
  intro k _
  refine tr_bind (k_getEntry _) ?_
  intro x _
  -- the tail after the emptiness check
  have htail : Tr (KI P) (do
      let d ← dirOf k
      match (← getEntry d) with
      | some pe =>
        let pe' ← liftO (pe.removeChild (baseName k))
        setEntry d pe'
      | none => M.pure ()
      match (← getEntry k) with
      | some e => if e.file then do let _ ← removeFile k
      | none => M.pure ()
      let _ ← removeEntry k
      return ()) (fun _ => True) := by
    have hend : Tr (KI P) (do
        match (← getEntry k) with
        | some e => if e.file then do let _ ← removeFile k
        | none => M.pure ()
        let _ ← removeEntry k
        return ()) (fun _ => True) := by
      refine tr_bind (k_getEntry _) ?_
      intro z _
      have hfin : Tr (KI P) (do let _ ← removeEntry k; return ()) (fun _ => True) :=
        tr_bind (k_removeEntry _) (fun _ _ => tr_pure _ trivial)
      cases z with
      | none => dsimp only; tr_skip; exact hfin
      | some e =>
        dsimp only
        split
        · refine tr_bind (k_removeFile _) ?_
          intro _ _
          exact hfin
        · exact hfin
    refine tr_bind (tr_dirOf _) ?_
    intro d _
    refine tr_bind (k_getEntry _) ?_
    intro y hy
    cases y with
    | none => dsimp only; tr_skip; exact hend
    | some pe =>
      dsimp only
      refine tr_bind (tr_liftO _) ?_
      intro pe' hpe'
      refine tr_bind (k_setEntry (hP.rmChild _ _ _ _ (hy pe rfl) hpe')) ?_
      intro _ _
      exact hend
  -- `if !guard.contains_entry(&path) { return Ok(()); }` in front of the tail
  have htail2 : Tr (KI P) (do
      if (← getEntry k).isNone then return () else
      let d ← dirOf k
      match (← getEntry d) with
      | some pe =>
        let pe' ← liftO (pe.removeChild (baseName k))
        setEntry d pe'
      | none => M.pure ()
      match (← getEntry k) with
      | some e => if e.file then do let _ ← removeFile k
      | none => M.pure ()
      let _ ← removeEntry k
      return ()) (fun _ => True) := by
    refine tr_bind (k_getEntry _) ?_
    intro z _
    split
    · exact tr_pure _ trivial
    · exact htail
  cases x with
  | none => dsimp only; tr_skip; exact htail2
  | some e =>
    dsimp only
    split
    · split
      · tr_skip; exact htail2
      · tr_skip; exact htail2
    · tr_skip; exact htail2

theorem removeAllLoop_tr (hP : EntStable P) :
    ∀ (f : Nat) (W : List FsPath), Tr (KI P) (removeAllLoop f W) (fun _ => True) := by
  intro f
  induction f with
  | zero => intro W; rw [removeAllLoop]; exact tr_hang
  | succ f ih =>
    intro W
    cases W with
    | nil => rw [removeAllLoop]; exact tr_mpure _ trivial
    | cons p work =>
      rw [removeAllLoop]
      refine tr_bind (k_getEntry _) ?_
      intro x _
      cases x with
      | none => exact ih _
      | some e =>
        dsimp only
        have hleaf : Tr (KI P) (do
            let d ← dirOf p
            match (← getEntry d) with
            | some pe =>
              let pe' ← liftO (pe.removeChild (baseName p))
              setEntry d pe'
            | none => M.pure ()
            let _ ← removeFile p
            let _ ← removeEntry p
            removeAllLoop f work) (fun _ => True) := by
          have hend : Tr (KI P) (do
              let _ ← removeFile p
              let _ ← removeEntry p
              removeAllLoop f work) (fun _ => True) := by
            refine tr_bind (k_removeFile _) ?_
            intro _ _
            refine tr_bind (k_removeEntry _) ?_
            intro _ _
            exact ih _
          refine tr_bind (tr_dirOf _) ?_
          intro d _
          refine tr_bind (k_getEntry _) ?_
          intro y hy
          cases y with
          | none => dsimp only; tr_skip; exact hend
          | some pe =>
            dsimp only
            refine tr_bind (tr_liftO _) ?_
            intro pe' hpe'
            refine tr_bind (k_setEntry (hP.rmChild _ _ _ _ (hy pe rfl) hpe')) ?_
            intro _ _
            exact hend
        split
        · exact ih _
        · exact hleaf

theorem removeAllM_tr (hP : EntStable P) (env : Env) (p : Str) :
    Tr (KI P) (removeAllM env p) (fun _ => True) := by
  unfold removeAllM
  refine tr_bind (k_absM _ _) ?_
  intro k _
  refine tr_bind tr_get ?_
  intro s _
  exact removeAllLoop_tr hP _ _

/-- the entry `_symlink` builds -/
def linkEntry (l t : FsPath) (tIsDir : Bool) : Entry :=
  { path := l, alt := some t, rel := relative (renderP t) (renderP l.dropLast), dir := tIsDir, file := !tIsDir,
    link := true, mode := optsMode true (!tIsDir) tIsDir none, uid := 1000, gid := 1000,
    follow := false, cached := false, files := if tIsDir then some [] else none }

theorem symlinkM_tr (hP : EntStable P) (hnew : ∀ l t b, WfKey l → P l (linkEntry l t b)) (env : Env)
    (l t : Str) : Tr (KI P) (symlinkM env l t) (fun _ => True) := by
  unfold symlinkM
  refine tr_bind (k_absM _ _) ?_
  intro lk hlk
  refine tr_bind (k_getEntry _) ?_
  intro x _
  split
  · exact tr_fail _
  have htail : ∀ tstr : Str, Tr (KI P) (do
      let t ← absM env tstr
      let ldir ← dirOf lk
      let rel := relative (renderP t) (renderP ldir)
      let tIsDir := match (← getEntry t) with | some x => x.dir | none => false
      let e : Entry := { path := lk, alt := some t, rel := rel, dir := tIsDir, file := !tIsDir, link := true,
                         mode := optsMode true (!tIsDir) tIsDir none, uid := 1000, gid := 1000,
                         follow := false, cached := false, files := if tIsDir then some [] else none }
      let _ ← add e
      return lk) (fun _ => True) := by
    intro tstr
    refine tr_bind (k_absM _ _) ?_
    intro tk _
    refine tr_bind (tr_dirOf _) ?_
    intro ldir hldir
    subst hldir
    refine tr_bind (k_getEntry _) ?_
    intro y _
    refine tr_bind (k_add hP _ ?_) (fun _ _ => tr_pure _ trivial)
    exact hnew lk tk _ hlk
  dsimp only
  split
  · tr_skip; exact htail _
  · refine tr_bind (tr_dirOf _) ?_
    intro d _
    tr_skip
    exact htail _

end ki

/-! ### the combined per-entry predicate -/

/-- `entryOkB` and a well-formed key -/
def EK (k : FsPath) (e : Entry) : Prop := RefineA.entryOkB k e = true ∧ WfKey k

theorem entStable_EK : EntStable EK where
  rmChild := fun k e n e' h hr => ⟨MoveLinkRel.moveStable_entryOk.rmChild k e n e' h.1 hr, h.2⟩
  addChild := fun k e n b e' h hr => ⟨MoveLinkRel.moveStable_entryOk.addChild k e n b e' h.1 hr, h.2⟩

theorem entryOk_linkEntry (l t : FsPath) (b : Bool) : RefineA.entryOkB l (linkEntry l t b) = true := by
  have hk : kindOf (linkEntry l t b) = .link b := rfl
  simp only [RefineA.entryOkB, hk, typeBits, Bool.and_eq_true, decide_eq_true_eq, Bool.or_eq_true,
    Bool.not_eq_true']
  have hm : (linkEntry l t b).mode = 0o120777 := by
    show optsMode true (!b) b none = 0o120777
    rw [ModeBits.optsMode_none]; rfl
  refine ⟨⟨?_, ?_, ?_⟩, Or.inr ?_⟩
  · show b = !(!b)
    cases b <;> rfl
  · rw [hm]; decide
  · rw [hm]; decide
  · show decide (relative (renderP t) (renderP l.dropLast) = relative (renderP t) (renderP l.dropLast)) = true
    simp

theorem ki_iff (s : State) : KI EK s ↔ EOk s ∧ KeysW s := by
  constructor
  · intro h
    refine ⟨(MoveLinkRel.entriesOk_iff s).2 (fun kv hkv => (h.1 kv hkv).1), fun kv hkv => (h.1 kv hkv).2, h.2⟩
  · intro h
    exact ⟨fun kv hkv => ⟨(MoveLinkRel.entriesOk_iff s).1 h.1 kv hkv, h.2.1 kv hkv⟩, h.2.2⟩

theorem ki_step_B3 (env : Env) (s : State) (op : Op) (hc : InvB.CoveredB3 op) (h : KI EK s) :
    KI EK (step env s op).2 := by
  cases op <;> try exact absurd hc id
  · rw [step, InvA.mapVal_snd]; exact (removeM_tr entStable_EK env _ s h).1
  · rw [step, InvA.mapVal_snd]; exact (removeAllM_tr entStable_EK env _ s h).1
  · rw [step, InvA.mapVal_snd]
    exact (symlinkM_tr entStable_EK (fun l t b hl => ⟨entryOk_linkEntry l t b, hl⟩) env _ _ s h).1

/-! ### `move_p` keeps the keys well formed -/

theorem kindWf_of_entriesOk {s : State} (h : EOk s) : KindWf s := by
  intro kv hkv
  have h1 := entriesOk_mem h hkv
  simp only [RefineA.entryOkB, Bool.and_eq_true, decide_eq_true_eq] at h1
  rw [h1.1.1]
  cases kv.2.file <;> rfl

theorem wfKey_of_append_right {a b : FsPath} (h : WfKey (a ++ b)) : WfKey b :=
  fun n hn => h n (List.mem_append_right _ hn)

theorem lookup_some_of_mem {β : Type} {kv : FsPath × β} {l : List (FsPath × β)} (h : kv ∈ l) :
    ∃ v, alLookup kv.1 l = some v := by
  have : (alLookup kv.1 l).isSome = true :=
    alLookup_isSome_iff_mem_keys.2 (List.mem_map.2 ⟨kv, h, rfl⟩)
  exact Option.isSome_iff_exists.1 this

theorem nodeAt_some_iff (σ : State) (k : FsPath) :
    (nodeAt σ k).isSome = (alLookup k σ.entries).isSome := by
  unfold nodeAt; cases alLookup k σ.entries <;> rfl

theorem moveM_keysW (env : Env) (a b : Str) (s : State) (hI : Spec.Inv s) (hK : KeysW s) (hF : KindWf s) :
    KeysW (moveM env a b s).2 := by
  rcases moveM_cases env a b s with ⟨r, h, _⟩ | ⟨sk, dk, srcE, _, _, _, _, h⟩ | ⟨sk, dk, srcE, ha, hb, hv, h⟩
  · rw [h]; exact hK
  · rw [h]; exact hK
  · have hi := invF_of_inv hI
    have hdk : WfKey dk := absM_wf hK.2 hb
    have hs := moveSetup_of_valid hi hK hF hdk hv
    obtain ⟨σ', hrun, hcwd, hnone, hview, hother⟩ := moveLoop_spec hi hK hs
    rw [h, hrun]
    refine ⟨?_, by show WfKey σ'.cwd; rw [hcwd]; exact hK.2⟩
    intro kv hkv
    show WfKey kv.1
    obtain ⟨v, hv'⟩ := lookup_some_of_mem hkv
    have hsome : (nodeAt σ' kv.1).isSome = true := by rw [nodeAt_some_iff, hv']; rfl
    have hsk : WfKey sk := hK.key hv.src
    have hD : WfKey (moveDst s sk dk) := by
      rw [hs.dform]
      split
      · exact WfKey.append hdk (fun n hn => by
          simp only [List.mem_singleton] at hn; subst hn
          exact hsk _ (baseName_mem hs.skne))
      · exact hdk
    by_cases h1 : ∃ r, kv.1 = sk ++ r
    · obtain ⟨r, hr⟩ := h1
      rw [hr, hnone r] at hv'
      cases hv'
    · by_cases h2 : ∃ r, kv.1 = moveDst s sk dk ++ r
      · obtain ⟨r, hr⟩ := h2
        rw [hr, hview r, nodeAt_some_iff] at hsome
        obtain ⟨e0, he0⟩ := Option.isSome_iff_exists.1 hsome
        rw [hr]
        exact WfKey.append hD (wfKey_of_append_right (hK.key he0))
      · rw [hother kv.1 (fun r hr => h1 ⟨r, hr⟩) (fun r hr => h2 ⟨r, hr⟩), nodeAt_some_iff] at hsome
        obtain ⟨e0, he0⟩ := Option.isSome_iff_exists.1 hsome
        exact hK.key he0

theorem keysW_step_moveP (env : Env) (a b : Str) (s : State) (hI : Spec.Inv s) (hK : KeysW s) (hE : EOk s) :
    KeysW (step env s (.moveP a b)).2 := by
  rw [step, InvA.mapVal_snd]
  exact moveM_keysW env a b s hI hK (kindWf_of_entriesOk hE)

/-! ### what the refinement theorems ask for, from `Inv`, `EntriesOk`, `KeysW` -/

theorem flagsOk_of_entriesOk {s : State} (h : EOk s) : RefineB.FlagsOk s := by
  intro kv hkv _
  have h1 := entriesOk_mem h hkv
  simp only [RefineA.entryOkB, Bool.and_eq_true, decide_eq_true_eq] at h1
  rw [h1.1.1]
  cases kv.2.file <;> rfl

theorem typeBits_ge (k : TreeFs.Kind) : 0o10000 ≤ typeBits k := by
  cases k <;> simp [typeBits]

theorem modeOk_of_entriesOk {s : State} (h : EOk s) : RefineB.ModeOk s := by
  intro kv hkv
  have h1 := entriesOk_mem h hkv
  simp only [RefineA.entryOkB, Bool.and_eq_true, decide_eq_true_eq] at h1
  have h2 := h1.1.2.1
  have : typeBits (kindOf kv.2) ≤ kv.2.mode := by
    rw [← h2]; exact Nat.and_le_left
  exact Nat.le_trans (typeBits_ge _) this

theorem keysWfB_of (s : State) (hI : Spec.Inv s) (hK : KeysW s) : RefineB.KeysWf s := by
  refine ⟨hK.1, ?_, hK.2⟩
  intro kv hkv
  obtain ⟨b, hb⟩ := lookup_some_of_mem hkv
  obtain ⟨e, he⟩ := (invF_of_inv hI).dangling _ _ hb
  exact hK.key he

theorem nameOk_of_wf {n : Str} (h : Wf n) : RefineA.nameOk n = true := by
  obtain ⟨h1, h2, h3, h4⟩ := h
  simp [RefineA.nameOk, h1, h2, h3, h4]

theorem keysWfA_of (s : State) (h : RefineB.KeysWf s) : RefineA.KeysWf s := by
  unfold RefineA.KeysWf RefineA.keyOk
  simp only [Bool.and_eq_true, List.all_eq_true]
  exact ⟨⟨fun kv hkv n hn => nameOk_of_wf (h.1 kv hkv n hn), fun kv hkv n hn => nameOk_of_wf (h.2.1 kv hkv n hn)⟩,
    fun n hn => nameOk_of_wf (h.2.2 n hn)⟩

/-! ### `DepthOk` from the number of entries -/

theorem length_le_of_nodup_subset {α} [DecidableEq α] : ∀ (l l' : List α), l.Nodup → l ⊆ l' → l.length ≤ l'.length
  | [], _, _, _ => Nat.zero_le _
  | a :: l, l', hn, hs => by
    have ha : a ∈ l' := hs List.mem_cons_self
    have hn' := List.nodup_cons.1 hn
    have hsub : l ⊆ l'.erase a := by
      intro x hx
      have hxa : x ≠ a := fun h => hn'.1 (h ▸ hx)
      exact (List.mem_erase_of_ne hxa).2 (hs (List.mem_cons_of_mem _ hx))
    have := length_le_of_nodup_subset l (l'.erase a) hn'.2 hsub
    rw [List.length_erase_of_mem ha] at this
    have hpos : 0 < l'.length := List.length_pos_of_mem ha
    simp only [List.length_cons]
    omega

theorem prefix_is_key {s : State} (hi : InvF s) {k : FsPath} {e : Entry} (hk : alLookup k s.entries = some e)
    (n : Nat) : (alLookup (k.take n) s.entries).isSome = true := by
  by_cases hd : k.drop n = []
  · have : k.take n = k := by
      have := List.take_append_drop n k
      rw [hd, List.append_nil] at this; exact this
    rw [this, hk]; rfl
  · have hk' : alLookup (k.take n ++ k.drop n) s.entries = some e := by rw [List.take_append_drop]; exact hk
    obtain ⟨pe, hpe, _⟩ := ancestor_is_dir hi (k.drop n) (k.take n) e hk' hd
    rw [hpe]; rfl

/-- a well-formed tree with fewer than `usize::MAX` entries has no key of `usize::MAX` components -/
theorem depthOk_of_small {s : State} (hI : Spec.Inv s) (hsmall : s.entries.length < 2 ^ 64 - 1) :
    RefineB.DepthOk s := by
  have hi := invF_of_inv hI
  intro kv hkv
  obtain ⟨e, he⟩ := lookup_some_of_mem hkv
  -- the `kv.1.length + 1` prefixes are distinct keys
  let ps := (List.range (kv.1.length + 1)).map (fun n => kv.1.take n)
  have hnd : ps.Nodup := by
    show List.Pairwise _ _
    rw [List.pairwise_map]
    refine List.Pairwise.imp_of_mem ?_ (List.nodup_range (n := kv.1.length + 1))
    intro a b ha hb hne hab
    have := congrArg List.length hab
    simp only [List.length_take] at this
    have ha' := List.mem_range.1 ha
    have hb' := List.mem_range.1 hb
    omega
  have hsub : ps ⊆ s.entries.map (·.1) := by
    intro p hp
    obtain ⟨n, _, rfl⟩ := List.mem_map.1 hp
    exact alLookup_isSome_iff_mem_keys.1 (prefix_is_key hi he n)
  have := length_le_of_nodup_subset ps _ hnd hsub
  simp only [ps, List.length_map, List.length_range] at this
  omega

end Rivia.Lemmas.Reach
