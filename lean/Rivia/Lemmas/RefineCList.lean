/-
  Rivia.Lemmas.RefineCList — C01, group C (part 2): the six listing helpers
  `paths dirs files all_paths all_dirs all_files` refine the reference listing.

  Both sides return a strictly increasing list (component-wise lexicographic order `pathLt`):
  Memfs by its sorted pre-order walk over the snapshot (`Walk.listing_spec`, with the snapshot
  hypotheses discharged by `Snap.snapshot_correct_core`), the reference by `sortP` of the selected keys.
  Strictly increasing lists with the same members are equal (`StdfsL.sorted_unique`), so what remains is
  the membership comparison: Memfs selects by the ENTRY flags `dir` / `file`, the reference by the NODE
  kind; since the repair of `listing_includes_links` the collecting loop of `dirs` / `files` / `all_dirs` /
  `all_files` skips link entries, so "flag ∧ ¬link" on the Memfs side is exactly the node kind on the
  reference side and the comparison needs no hypothesis about links any more.  The walk of `all_*` stops
  at depth `u64::MAX`; the reference does not: `DepthOk` for these three.
-/
import Rivia.Lemmas.Snapshot
import Rivia.Lemmas.Walk
import Rivia.Lemmas.StdfsList
import Rivia.Lemmas.SimStep
import Rivia.Lemmas.RefineA

namespace Rivia.Lemmas.RefineC
open Rivia Rivia.Memfs Rivia.File Rivia.Spec Rivia.Spec.TreeFs Rivia.Lemmas.RefineA

/-- the depth argument the six helpers pass -/
def mdOf (all : Bool) : Option Nat := if all then none else some 1

theorem depthCap_one : depthCap (mdOf false) = 1 := by decide
theorem depthCap_all : depthCap (mdOf true) = 2 ^ 64 - 1 := rfl

/-- the keys the reference selects -/
def specKeys (t : T) (a : FsPath) (all : Bool) (want : Node → Bool) : List FsPath :=
  (t.nodes.filter (fun kv => isProperPrefix a kv.1 && (all || kv.1.length = a.length + 1) && want kv.2)).map (·.1)

theorem listing_ok_eq (t : T) (a : FsPath) (all : Bool) (want : Node → Bool) (h : isDir t a = true) :
    TreeFs.listing t a all want = .ok (sortP (specKeys t a all want)) := by
  unfold TreeFs.listing specKeys
  rw [h]; rfl

theorem listing_err_eq (t : T) (a : FsPath) (all : Bool) (want : Node → Bool) (h : isDir t a = false) :
    TreeFs.listing t a all want = .err (some .isNotDir) := by
  unfold TreeFs.listing
  rw [h]; rfl

theorem specKeys_nodup {t : T} (h : Sim.NodupK t) (a : FsPath) (all : Bool) (want : Node → Bool) :
    (specKeys t a all want).Nodup :=
  List.Nodup.sublist (List.Sublist.map _ List.filter_sublist) h

theorem mem_specKeys {s : State} (hn : (s.entries.map (·.1)).Nodup) (a : FsPath) (all : Bool) (want : Node → Bool)
    (k : FsPath) :
    k ∈ specKeys (absS s) a all want ↔ ∃ e, alLookup k s.entries = some e ∧ isProperPrefix a k = true ∧
      (all = true ∨ k.length = a.length + 1) ∧ want (absNode s k e) = true := by
  unfold specKeys absS
  simp only [List.mem_map, List.mem_filter, Bool.and_eq_true, Bool.or_eq_true, decide_eq_true_eq]
  constructor
  · rintro ⟨kn, ⟨⟨kv, hkv, rfl⟩, ⟨h1, h2⟩, h3⟩, rfl⟩
    obtain ⟨k, e⟩ := kv
    exact ⟨e, RefineB.alLookup_of_mem_nodup hn hkv, h1, h2, h3⟩
  · rintro ⟨e, he, h1, h2, h3⟩
    exact ⟨(k, absNode s k e), ⟨⟨(k, e), RefineB.alLookup_some_mem he, rfl⟩, ⟨h1, h2⟩, h3⟩, rfl⟩

theorem listing_notDir {env : Env} {path : Str} {md : Option Nat} {dirs files : Bool} {s : State} {a : FsPath}
    (habs : absM env path s = (.ok a, s)) (hdir : isDirP s a = false) :
    Memfs.listing env path md dirs files s = (.err .isNotDir, s) := by
  unfold Memfs.listing
  simp only [bind, M.bind, M.get, habs, hdir, Bool.not_false, if_true]
  rfl

theorem listing_absErr {env : Env} {path : Str} {md : Option Nat} {dirs files : Bool} {s : State}
    (habs : ∀ a, absM env path s ≠ (.ok a, s)) (hst : (absM env path s).2 = s) :
    Memfs.listing env path md dirs files s = (.err .isNotDir, s) := by
  unfold Memfs.listing
  simp only [bind, M.bind, M.get]
  rcases h : absM env path s with ⟨o, s'⟩
  rw [h] at hst
  simp only at hst
  subst hst
  cases o with
  | ok a => exact absurd h (habs a)
  | err k => rfl
  | panic => rfl
  | hang => rfl

theorem isDirP_eq_isDir (s : State) (a : FsPath) : isDirP s a = isDir (absS s) a := by
  rw [RefineB.isDir_absS]; rfl

/-- the listing step: `want` (reference, on nodes) and the flags `dirs` / `files` (Memfs, on entries)
    select the same keys among those strictly below the resolved directory at the selected depth -/
theorem sim_listing (env : Env) (s : State) (p : Str) (all dirs files : Bool) (want : Node → Bool)
    (hI : Spec.Inv s) (hSo : Snap.Sorted s.entries)
    (hD : all = true → RefineB.DepthOk s)
    (hW : ∀ a, resolve env (absS s) p = .ok a → ∀ k e, alLookup k s.entries = some e →
      isProperPrefix a k = true → (all = true ∨ k.length = a.length + 1) →
      (want (absNode s k e) = true ↔ ((files = true → e.file = true ∧ e.link = false) ∧
        (dirs = true → files = false → e.dir = true ∧ e.link = false)))) :
    Sim (mapVal .paths (Memfs.listing env p (mdOf all) dirs files) s) (listQ env (absS s) p all want) := by
  unfold listQ
  have habs := absM_eq env p s
  cases hr : resolve env (absS s) p with
  | err e =>
    rw [hr] at habs
    have : Memfs.listing env p (mdOf all) dirs files s = (.err .isNotDir, s) :=
      listing_absErr (fun a h => by rw [habs] at h; cases h) (by rw [habs])
    simp only [mapVal, this]
    exact sim_same (by simp)
  | panic => exact sim_unspec _ _
  | hang => exact sim_unspec _ _
  | ok a =>
    rw [hr] at habs
    simp only
    cases hdir : isDirP s a with
    | false =>
      have hd2 : isDir (absS s) a = false := by rw [← isDirP_eq_isDir]; exact hdir
      simp only [mapVal, listing_notDir habs hdir, listing_err_eq _ _ _ _ hd2, liftR]
      exact sim_same (by simp)
    | true =>
      have hd2 : isDir (absS s) a = true := by rw [← isDirP_eq_isDir]; exact hdir
      have hP := RefineB.inv_props hI
      cases hl : alLookup a s.entries with
      | none => unfold isDirP at hdir; rw [hl] at hdir; cases hdir
      | some rootE =>
        obtain ⟨snap, hent, hwf, _, hso, _⟩ := Snap.snapshot_correct_core hI hSo hl
        obtain ⟨ps, h1, _, h3, _, _, h6⟩ := Walk.listing_spec (mdOf all) dirs files hI habs hdir hent hwf hso
        have heq : ps = sortP (specKeys (absS s) a all want) := by
          refine StdfsL.sorted_unique _ _ h3
            (StdfsL.sorted_sortP _ (specKeys_nodup (Sim.nodupK_absS hI) a all want)) fun k => ?_
          rw [StdfsL.mem_sortP, mem_specKeys hP.nodup, h6]
          constructor
          · rintro ⟨t, e, rfl, hne, hlen, he, hf, hd⟩
            have hpp : isProperPrefix a (a ++ t) = true := (StdfsL.isProperPrefix_iff _ _).2 ⟨t, hne, rfl⟩
            have hdep : all = true ∨ (a ++ t).length = a.length + 1 := by
              cases all with
              | true => exact Or.inl rfl
              | false =>
                right
                rw [depthCap_one] at hlen
                have : 0 < t.length := List.length_pos_iff.mpr hne
                rw [List.length_append]
                omega
            exact ⟨e, he, hpp, hdep, (hW a hr _ e he hpp hdep).2 ⟨hf, hd⟩⟩
          · rintro ⟨e, he, hpp, hdep, hw⟩
            obtain ⟨t, hne, rfl⟩ := (StdfsL.isProperPrefix_iff _ _).1 hpp
            have hfd := (hW a hr _ e he hpp hdep).1 hw
            refine ⟨t, e, rfl, hne, ?_, he, hfd.1, hfd.2⟩
            cases all with
            | true =>
              have := hD rfl (a ++ t, e) (RefineB.alLookup_some_mem he)
              simp only [List.length_append] at this
              rw [depthCap_all]
              omega
            | false =>
              rcases hdep with h | h
              · cases h
              · rw [depthCap_one]
                rw [List.length_append] at h
                omega
        simp only [mapVal, h1, listing_ok_eq _ _ _ _ hd2, liftR]
        exact sim_same (by simp [heq])

/-! ### the six helpers, no hypothesis about links -/

/-- `dirs` / `all_dirs`: "directory flag and not a link" is the node kind `dir` -/
theorem want_dirs_iff (s : State) (k : FsPath) (e : Entry) :
    decide ((absNode s k e).kind = Kind.dir) = true ↔
      ((false = true → e.file = true ∧ e.link = false) ∧ (true = true → false = false → e.dir = true ∧ e.link = false)) := by
  have : (absNode s k e).kind = kindOf e := rfl
  rw [decide_eq_true_iff, this, RefineA.kind_dir_iff]
  simp

/-- `files` / `all_files`: "file flag and not a link" is the node kind `file` (entries carry exactly one of
    the two flags: `EntriesOk`) -/
theorem want_files_iff {s : State} (hOk : RefineA.EntriesOk s) {k : FsPath} {e : Entry}
    (he : alLookup k s.entries = some e) :
    decide ((absNode s k e).kind = Kind.file) = true ↔
      ((true = true → e.file = true ∧ e.link = false) ∧ (false = true → true = false → e.dir = true ∧ e.link = false)) := by
  have : (absNode s k e).kind = kindOf e := rfl
  rw [decide_eq_true_iff, this, RefineA.kind_file_iff (RefineA.entriesOk_lookup hOk he)]
  simp

theorem sim_paths (env : Env) (s : State) (p : Str) (all : Bool) (hI : Spec.Inv s) (hSo : Snap.Sorted s.entries)
    (hD : all = true → RefineB.DepthOk s) :
    Sim (mapVal .paths (Memfs.listing env p (mdOf all) false false) s) (listQ env (absS s) p all (fun _ => true)) :=
  sim_listing env s p all false false _ hI hSo hD (fun _ _ _ _ _ _ _ => by simp)

theorem sim_dirs (env : Env) (s : State) (p : Str) (all : Bool) (hI : Spec.Inv s) (hSo : Snap.Sorted s.entries)
    (hD : all = true → RefineB.DepthOk s) :
    Sim (mapVal .paths (Memfs.listing env p (mdOf all) true false) s)
      (listQ env (absS s) p all (fun n => decide (n.kind = .dir))) :=
  sim_listing env s p all true false _ hI hSo hD (fun _ _ k e _ _ _ => want_dirs_iff s k e)

theorem sim_files (env : Env) (s : State) (p : Str) (all : Bool) (hI : Spec.Inv s) (hSo : Snap.Sorted s.entries)
    (hOk : RefineA.EntriesOk s) (hD : all = true → RefineB.DepthOk s) :
    Sim (mapVal .paths (Memfs.listing env p (mdOf all) false true) s)
      (listQ env (absS s) p all (fun n => decide (n.kind = .file))) :=
  sim_listing env s p all false true _ hI hSo hD (fun _ _ _ _ he _ _ => want_files_iff hOk he)

end Rivia.Lemmas.RefineC
