/-
  Rivia.Lemmas.Walk — the traversal stack machine of the model (`process` / `nextLoop` / `runIter`)
  against the recursive walk of `Rivia.Spec.Walk` (property C08), `follow = false`.

  Part A: names, association lists, well-formed snapshots, the children of an entry
  Part B: fuel irrelevance of `walk` (`pot` = number of keys strictly below a path)
  Part C: structure of the walk: prefixes, the order lemma `walk_pairwise`, distinctness,
          parents first
  Part D: the machine
          - `mkIter_eq`, `process_nf`: one step, every option combination
          - frames: `remF` (what is still to be yielded), `workF` (iterations still needed)
          - parents first: `nextLoop_pre` → `runIter_pre` → `collectEntries_pre`
          - every option combination: `nextLoop_term` → `collectEntries_ok`/`collectEntries_sub`
            (termination; the output is contained in the visited entries, no path twice)
          - depth bound, lexicographic order, sibling order
          - contents first: `nextLoop_post` → `collectEntries_post`
          - declarative membership `mem_walk_iff`
  Part E: the listing helpers (`listing_spec`), using clause (2) of `Spec.Inv`
-/
import Rivia.Spec.Walk
import Rivia.Spec.TreeFs
import Rivia.Spec.MemfsJudge

namespace Rivia.Lemmas.Walk
open Rivia Rivia.Memfs Rivia.Spec
open Rivia.Spec.TreeFs (pathLt)

/-! ## Part A -/

theorem strLt_imp_lt : ∀ a b : Str, strLt a b = true → a < b
  | [], [], h => by simp [strLt] at h
  | [], _ :: _, _ => by simp
  | _ :: _, [], h => by simp [strLt] at h
  | a :: as, b :: bs, h => by
    rw [List.cons_lt_cons_iff]
    unfold strLt at h
    split at h
    · left; exact Char.lt_def.mpr (by assumption)
    · split at h
      · cases h
      · right
        refine ⟨?_, strLt_imp_lt as bs h⟩
        apply Char.ext
        apply UInt32.le_antisymm <;> (apply UInt32.not_lt.mp; assumption)

theorem strLt_asymm : ∀ a b : Str, strLt a b = true → strLt b a = false
  | [], [], h => by simp [strLt] at h
  | [], _ :: _, _ => by simp [strLt]
  | _ :: _, [], h => by simp [strLt] at h
  | a :: as, b :: bs, h => by
    unfold strLt at h ⊢
    split at h
    · rename_i h1
      rw [if_neg (by intro h2; exact absurd h1 (UInt32.lt_asymm h2)), if_pos h1]
    · split at h
      · cases h
      · rename_i h1 h2
        rw [if_neg h2, if_neg h1]; exact strLt_asymm as bs h

theorem strLt_irrefl (a : Str) : strLt a a = false := by
  cases h : strLt a a with
  | false => rfl
  | true => have := strLt_asymm a a h; rw [h] at this; cases this

theorem strLt_ne {a b : Str} (h : strLt a b = true) : a ≠ b := by
  intro hab; subst hab; rw [strLt_irrefl] at h; cases h

theorem alLookup_mem {β} {k : FsPath} {v : β} : ∀ {l : List (FsPath × β)}, alLookup k l = some v → (k, v) ∈ l
  | [], h => by simp [alLookup] at h
  | (k', v') :: r, h => by
    unfold alLookup at h
    split at h
    · rename_i hk; cases h; subst hk; exact List.mem_cons_self
    · exact List.mem_cons_of_mem _ (alLookup_mem h)

theorem wf_lookup {snap : Snap} (hwf : SnapWf snap) {k : FsPath} {e : Entry} (h : alLookup k snap = some e) :
    e.path = k ∧ (e.files.getD []).Pairwise (fun a b => strLt a b = true) ∧
      ∀ n ∈ e.files.getD [], (alLookup (k ++ [n]) snap).isSome = true :=
  hwf (k, e) (alLookup_mem h)

theorem inSnap_of_lookup {snap : Snap} (hwf : SnapWf snap) {k : FsPath} {e : Entry} (h : alLookup k snap = some e) :
    InSnap snap e := by
  have := (wf_lookup hwf h).1
  unfold InSnap; rw [this]; exact h

/-- the children of `e` in the snapshot, in the order the snapshot lists them -/
def kidsRaw (snap : Snap) (e : Entry) : List Entry :=
  (e.files.getD []).filterMap (fun n => alLookup (e.path ++ [n]) snap)

theorem mem_kidsRaw {snap : Snap} {e c : Entry} (h : c ∈ kidsRaw snap e) :
    ∃ n, n ∈ e.files.getD [] ∧ alLookup (e.path ++ [n]) snap = some c := by
  unfold kidsRaw at h
  exact List.mem_filterMap.mp h

theorem mem_groupKinds {o : Opts} {l : List Entry} {c : Entry} : c ∈ groupKinds o l ↔ c ∈ l := by
  unfold groupKinds
  split
  · simp only [List.mem_append, List.mem_filter]
    cases c.dir <;> simp
  · split
    · simp only [List.mem_append, List.mem_filter]
      cases c.dir <;> simp
    · rfl

theorem groupKinds_perm (o : Opts) (l : List Entry) : (groupKinds o l).Perm l := by
  unfold groupKinds
  split
  · exact List.filter_append_perm _ l
  · split
    · have h := List.filter_append_perm (fun x : Entry => !x.dir) l
      simpa using h
    · exact List.Perm.refl _

theorem orderNames_sorted (o : Opts) {ns : List Str} (h : ns.Pairwise (fun a b => strLt a b = true)) :
    orderNames o ns = ns := by
  unfold orderNames
  split
  · apply List.mergeSort_of_pairwise
    exact h.imp (fun hab => by simpa using List.le_of_lt (strLt_imp_lt _ _ hab))
  · rfl

theorem children_eq {snap : Snap} (hwf : SnapWf snap) (o : Opts) {e : Entry} (he : InSnap snap e) :
    children snap o e = groupKinds o (kidsRaw snap e) := by
  unfold children kidsRaw
  rw [orderNames_sorted o (wf_lookup hwf he).2.1]

theorem mem_children {snap : Snap} (hwf : SnapWf snap) {o : Opts} {e c : Entry} (he : InSnap snap e)
    (h : c ∈ children snap o e) :
    ∃ n, n ∈ e.files.getD [] ∧ alLookup (e.path ++ [n]) snap = some c ∧ c.path = e.path ++ [n] ∧ InSnap snap c := by
  rw [children_eq hwf o he, mem_groupKinds] at h
  obtain ⟨n, hn, hl⟩ := mem_kidsRaw h
  exact ⟨n, hn, hl, (wf_lookup hwf hl).1, inSnap_of_lookup hwf hl⟩

/-- names of the raw children are strictly increasing -/
theorem kidsRaw_pairwise {snap : Snap} (hwf : SnapWf snap) {e : Entry} (he : InSnap snap e) :
    (kidsRaw snap e).Pairwise (fun c c' => ∃ n n', c.path = e.path ++ [n] ∧ c'.path = e.path ++ [n'] ∧ strLt n n' = true) := by
  unfold kidsRaw
  refine List.Pairwise.filterMap _ ?_ (wf_lookup hwf he).2.1
  intro n n' hnn c hc c' hc'
  exact ⟨n, n', (wf_lookup hwf hc).1, (wf_lookup hwf hc').1, hnn⟩

/-- names of the children are distinct, whatever the grouping -/
theorem children_pairwise_ne {snap : Snap} (hwf : SnapWf snap) (o : Opts) {e : Entry} (he : InSnap snap e) :
    (children snap o e).Pairwise (fun c c' => ∃ n n', c.path = e.path ++ [n] ∧ c'.path = e.path ++ [n'] ∧ n ≠ n') := by
  rw [children_eq hwf o he]
  refine (groupKinds_perm o _).symm.pairwise ((kidsRaw_pairwise hwf he).imp ?_) ?_
  · rintro c c' ⟨n, n', h1, h2, h3⟩; exact ⟨n, n', h1, h2, strLt_ne h3⟩
  · rintro c c' ⟨n, n', h1, h2, h3⟩; exact ⟨n', n, h2, h1, Ne.symm h3⟩

/-! ## Part B: fuel irrelevance -/

/-- number of snapshot keys strictly below `p` -/
def pot (snap : Snap) (p : FsPath) : Nat :=
  (snap.filter (fun kv => decide (p <+: kv.1 ∧ p ≠ kv.1))).length

theorem filter_length_le {α} (p q : α → Bool) : ∀ l : List α, (∀ x ∈ l, p x = true → q x = true) →
    (l.filter p).length ≤ (l.filter q).length
  | [], _ => Nat.le_refl _
  | x :: l, h => by
    have ih := filter_length_le p q l (fun y hy => h y (List.mem_cons_of_mem _ hy))
    have hx := h x List.mem_cons_self
    simp only [List.filter_cons]
    cases hp : p x
    · cases hq : q x <;> simp <;> omega
    · rw [hx hp]; simp; omega

theorem filter_length_lt {α} (p q : α → Bool) : ∀ l : List α, (∀ x ∈ l, p x = true → q x = true) →
    (∃ x ∈ l, q x = true ∧ p x = false) → (l.filter p).length < (l.filter q).length
  | [], _, ⟨_, hx, _⟩ => by cases hx
  | x :: l, h, ⟨y, hy, hqy, hpy⟩ => by
    have hl : ∀ y ∈ l, p y = true → q y = true := fun y hy => h y (List.mem_cons_of_mem _ hy)
    have hx := h x List.mem_cons_self
    simp only [List.filter_cons]
    rcases List.mem_cons.mp hy with rfl | hy'
    · rw [hqy, hpy]
      have := filter_length_le p q l hl
      simp; omega
    · have ih := filter_length_lt p q l hl ⟨y, hy', hqy, hpy⟩
      cases hp : p x
      · cases hq : q x <;> simp <;> omega
      · rw [hx hp]; simp; omega

theorem pot_le (snap : Snap) (p : FsPath) : pot snap p ≤ snap.length := List.length_filter_le _ _

theorem pot_child {snap : Snap} {p : FsPath} {n : Str} {c : Entry}
    (h : alLookup (p ++ [n]) snap = some c) : pot snap (p ++ [n]) < pot snap p := by
  unfold pot
  apply filter_length_lt
  · intro kv _ hkv
    simp only [decide_eq_true_eq] at hkv ⊢
    refine ⟨(List.prefix_append p [n]).trans hkv.1, ?_⟩
    intro heq
    have := hkv.1.length_le
    rw [← heq] at this; simp at this; omega
  · refine ⟨(p ++ [n], c), alLookup_mem h, ?_, ?_⟩
    · simp only [decide_eq_true_eq]
      refine ⟨List.prefix_append p [n], ?_⟩
      intro heq
      have := congrArg List.length heq
      simp at this
    · simp

theorem flatMap_congr' {α β} {f g : α → List β} : ∀ {l : List α}, (∀ x ∈ l, f x = g x) → l.flatMap f = l.flatMap g
  | [], _ => rfl
  | x :: l, h => by
    rw [List.flatMap_cons, List.flatMap_cons, h x List.mem_cons_self,
      flatMap_congr' (fun y hy => h y (List.mem_cons_of_mem _ hy))]

theorem walk_fuel_irrel {snap : Snap} (hwf : SnapWf snap) (o : Opts) :
    ∀ (k k' : Nat) (e : Entry) (d : Nat), InSnap snap e → pot snap e.path < k → pot snap e.path < k' →
      walk snap o k e d = walk snap o k' e d
  | 0, _, _, _, _, h, _ => by omega
  | _ + 1, 0, _, _, _, _, h => by omega
  | k + 1, k' + 1, e, d, he, h, h' => by
    have hk : ∀ c ∈ children snap o e, walk snap o k c (d + 1) = walk snap o k' c (d + 1) := by
      intro c hc
      obtain ⟨n, _, hl, hp, hin⟩ := mem_children hwf he hc
      have := pot_child hl
      rw [← hp] at this
      exact walk_fuel_irrel hwf o k k' c (d + 1) hin (by omega) (by omega)
    simp only [walk, flatMap_congr' hk]

/-- the walk with a canonical (always sufficient) amount of fuel -/
def W (snap : Snap) (o : Opts) (e : Entry) (d : Nat) : List Entry := walk snap o (pot snap e.path + 1) e d

theorem walk_eq_W {snap : Snap} (hwf : SnapWf snap) (o : Opts) {k : Nat} {e : Entry} (d : Nat) (he : InSnap snap e)
    (hk : pot snap e.path < k) : walk snap o k e d = W snap o e d :=
  walk_fuel_irrel hwf o _ _ e d he hk (Nat.lt_succ_self _)

theorem W_unfold {snap : Snap} (hwf : SnapWf snap) (o : Opts) {e : Entry} (d : Nat) (he : InSnap snap e) :
    W snap o e d =
      if o.contentsFirst && e.dir then
        (if descends o e d then (children snap o e).flatMap (fun c => W snap o c (d + 1)) else []) ++
          (if selected o e d then [e] else [])
      else
        (if selected o e d then [e] else []) ++
          (if descends o e d then (children snap o e).flatMap (fun c => W snap o c (d + 1)) else []) := by
  have hk : ∀ c ∈ children snap o e, walk snap o (pot snap e.path) c (d + 1) = W snap o c (d + 1) := by
    intro c hc
    obtain ⟨n, _, hl, hp, hin⟩ := mem_children hwf he hc
    have := pot_child hl
    rw [← hp] at this
    exact walk_eq_W hwf o (d + 1) hin this
  simp only [W, walk]
  rw [flatMap_congr' hk]
  rfl

theorem entriesSpec_eq_W {snap : Snap} (hwf : SnapWf snap) (o : Opts) {e : Entry} (he : InSnap snap e) :
    entriesSpec snap o e = W snap o e 0 :=
  walk_eq_W hwf o 0 he (Nat.lt_succ_of_le (pot_le snap _))

/-- the walk does not look at the descriptor cap -/
theorem walk_maxDesc (snap : Snap) (o : Opts) (m : Nat) :
    ∀ (k : Nat) (e : Entry) (d : Nat), walk snap { o with maxDesc := m } k e d = walk snap o k e d
  | 0, _, _ => rfl
  | k + 1, e, d => by
    have ih : (fun c => walk snap { o with maxDesc := m } k c (d + 1)) = (fun c => walk snap o k c (d + 1)) :=
      funext (fun c => walk_maxDesc snap o m k c (d + 1))
    simp only [walk, ih]
    rfl

/-! ## Part C: structure of the walk -/

theorem mem_walk_succ {snap : Snap} {o : Opts} {k : Nat} {e y : Entry} {d : Nat} :
    y ∈ walk snap o (k + 1) e d ↔
      (selected o e d = true ∧ y = e) ∨
      (descends o e d = true ∧ ∃ c ∈ children snap o e, y ∈ walk snap o k c (d + 1)) := by
  simp only [walk]
  split <;> (simp only [List.mem_append]; split <;> split <;> simp [List.mem_flatMap, or_comm, *])

theorem mem_walk {snap : Snap} (hwf : SnapWf snap) (o : Opts) :
    ∀ (k : Nat) (e : Entry) (d : Nat) (y : Entry), InSnap snap e → y ∈ walk snap o k e d →
      InSnap snap y ∧ (y = e ∨ ∃ n s, y.path = e.path ++ n :: s)
  | 0, _, _, _, _, h => by simp [walk] at h
  | k + 1, e, d, y, he, h => by
    rcases mem_walk_succ.mp h with ⟨_, rfl⟩ | ⟨_, c, hc, hy⟩
    · exact ⟨he, Or.inl rfl⟩
    · obtain ⟨n, _, _, hp, hin⟩ := mem_children hwf he hc
      obtain ⟨hiy, hy'⟩ := mem_walk hwf o k c (d + 1) y hin hy
      refine ⟨hiy, Or.inr ?_⟩
      rcases hy' with rfl | ⟨n', s, hs⟩
      · exact ⟨n, [], hp⟩
      · exact ⟨n, n' :: s, by rw [hs, hp]; simp⟩

theorem mem_walk_prefix {snap : Snap} (hwf : SnapWf snap) (o : Opts) {k : Nat} {e : Entry} {d : Nat} {y : Entry}
    (he : InSnap snap e) (h : y ∈ walk snap o k e d) : e.path <+: y.path := by
  rcases (mem_walk hwf o k e d y he h).2 with rfl | ⟨n, s, hs⟩
  · exact List.prefix_refl _
  · rw [hs]; exact List.prefix_append _ _

/-- every yielded entry is selected by the depth window and the kind filter (its depth being the
    number of components below the root of the walk) -/
theorem mem_walk_selected {snap : Snap} (hwf : SnapWf snap) (o : Opts) :
    ∀ (k : Nat) (e : Entry) (d : Nat) (y : Entry), InSnap snap e → y ∈ walk snap o k e d →
      selected o y (d + (y.path.length - e.path.length)) = true
  | 0, _, _, _, _, h => by simp [walk] at h
  | k + 1, e, d, y, he, h => by
    rcases mem_walk_succ.mp h with ⟨hs, rfl⟩ | ⟨_, c, hc, hy⟩
    · simpa using hs
    · obtain ⟨n, _, _, hp, hin⟩ := mem_children hwf he hc
      have ih := mem_walk_selected hwf o k c (d + 1) y hin hy
      have hpre := (mem_walk_prefix hwf o hin hy).length_le
      rw [hp] at ih hpre
      simp only [List.length_append, List.length_cons, List.length_nil] at ih hpre
      have : d + (y.path.length - e.path.length) = d + 1 + (y.path.length - (e.path.length + (0 + 1))) := by omega
      rw [this]; exact ih

/-- the order lemma: a relation that holds between an entry and everything below it, and between
    everything below two children in the order of `children`, holds pairwise along the walk -/
theorem walk_pairwise {snap : Snap} (hwf : SnapWf snap) (o : Opts) (R : Entry → Entry → Prop)
    (hself : ∀ x y n s, InSnap snap x → InSnap snap y → x.dir = true → y.path = x.path ++ n :: s →
      if o.contentsFirst then R y x else R x y)
    (hkids : ∀ x, InSnap snap x → (children snap o x).Pairwise (fun c c' =>
      ∀ y y', InSnap snap y → InSnap snap y' → c.path <+: y.path → c'.path <+: y'.path → R y y')) :
    ∀ (k : Nat) (e : Entry) (d : Nat), InSnap snap e → (walk snap o k e d).Pairwise R
  | 0, _, _, _ => by simp [walk]
  | k + 1, e, d, he => by
    have hbelow : (if descends o e d = true
        then (children snap o e).flatMap (fun c => walk snap o k c (d + 1)) else []).Pairwise R := by
      split
      · rw [List.pairwise_flatMap]
        refine ⟨fun c hc => walk_pairwise hwf o R hself hkids k c (d + 1) (mem_children hwf he hc).choose_spec.2.2.2, ?_⟩
        have hk := hkids e he
        -- strengthen with membership to get `InSnap` of the children
        have hk' : (children snap o e).Pairwise (fun c c' => c ∈ children snap o e ∧ c' ∈ children snap o e ∧
            ∀ y y', InSnap snap y → InSnap snap y' → c.path <+: y.path → c'.path <+: y'.path → R y y') := by
          have := List.Pairwise.and_mem.mp hk
          exact this.imp (fun ⟨a, b, c⟩ => ⟨a, b, c⟩)
        refine hk'.imp ?_
        rintro c c' ⟨hc, hc', hR⟩ y hy y' hy'
        have hin := (mem_children hwf he hc).choose_spec.2.2.2
        have hin' := (mem_children hwf he hc').choose_spec.2.2.2
        exact hR y y' (mem_walk hwf o k c _ y hin hy).1 (mem_walk hwf o k c' _ y' hin' hy').1
          (mem_walk_prefix hwf o hin hy) (mem_walk_prefix hwf o hin' hy')
      · exact List.Pairwise.nil
    have hselfP : (if selected o e d = true then [e] else []).Pairwise R := by split <;> simp
    have hcross : ∀ y, y ∈ (if descends o e d = true
        then (children snap o e).flatMap (fun c => walk snap o k c (d + 1)) else []) →
        e.dir = true ∧ InSnap snap y ∧ ∃ n s, y.path = e.path ++ n :: s := by
      intro y hy
      split at hy
      · rename_i hd
        obtain ⟨c, hc, hyc⟩ := List.mem_flatMap.mp hy
        obtain ⟨n, _, _, hp, hin⟩ := mem_children hwf he hc
        obtain ⟨hiy, hy'⟩ := mem_walk hwf o k c (d + 1) y hin hyc
        refine ⟨by simp [descends] at hd; exact hd.1.1, hiy, ?_⟩
        rcases hy' with rfl | ⟨n', s, hs⟩
        · exact ⟨n, [], hp⟩
        · exact ⟨n, n' :: s, by rw [hs, hp]; simp⟩
      · cases hy
    simp only [walk]
    split
    · rename_i hcf
      simp only [Bool.and_eq_true] at hcf
      rw [List.pairwise_append]
      refine ⟨hbelow, hselfP, ?_⟩
      intro y hy x hx
      obtain ⟨hd, hiy, n, s, hs⟩ := hcross y hy
      have hxe : x = e := by split at hx <;> simp_all
      subst hxe
      have := hself x y n s he hiy hd hs
      rw [hcf.1] at this; exact this
    · rename_i hcf
      rw [List.pairwise_append]
      refine ⟨hselfP, hbelow, ?_⟩
      intro x hx y hy
      obtain ⟨hd, hiy, n, s, hs⟩ := hcross y hy
      have hxe : x = e := by split at hx <;> simp_all
      subst hxe
      have := hself x y n s he hiy hd hs
      have hcf' : o.contentsFirst = false := by
        cases h : o.contentsFirst
        · rfl
        · simp [h, hd] at hcf
      rw [hcf'] at this; exact this

theorem append_cons_ne_of_ne {p : FsPath} {n n' : Str} {t t' : List Str} (h : n ≠ n') :
    p ++ n :: t ≠ p ++ n' :: t' := by
  intro heq
  have := List.append_cancel_left heq
  cases this; exact h rfl

theorem not_prefix_of_ne {p : FsPath} {n n' : Str} {t t' : List Str} (h : n ≠ n') :
    ¬ (p ++ n :: t <+: p ++ n' :: t') := by
  rintro ⟨r, hr⟩
  rw [List.append_assoc] at hr
  have := List.append_cancel_left hr
  simp at this; exact h this.1

/-- no path occurs twice (any options) -/
theorem walk_nodup {snap : Snap} (hwf : SnapWf snap) (o : Opts) (k : Nat) (e : Entry) (d : Nat) (he : InSnap snap e) :
    ((walk snap o k e d).map (·.path)).Nodup := by
  rw [List.Nodup, List.pairwise_map]
  apply walk_pairwise hwf o (fun a b => a.path ≠ b.path) _ _ k e d he
  · intro x y n s _ _ _ hs
    have h1 : y.path ≠ x.path := by
      intro h; rw [h] at hs
      have := congrArg List.length hs; simp at this
    split
    · exact h1
    · exact h1.symm
  · intro x hx
    refine (children_pairwise_ne hwf o hx).imp ?_
    rintro c c' ⟨n, n', h1, h2, hne⟩ y y' _ _ ⟨t, ht⟩ ⟨t', ht'⟩
    rw [← ht, ← ht', h1, h2, List.append_assoc, List.append_assoc]
    exact append_cons_ne_of_ne hne

/-- parents come before their contents: no entry is a proper ancestor of an earlier one -/
theorem walk_parents_first {snap : Snap} (hwf : SnapWf snap) (o : Opts) (hcf : o.contentsFirst = false)
    (k : Nat) (e : Entry) (d : Nat) (he : InSnap snap e) :
    (walk snap o k e d).Pairwise (fun a b => ¬ (b.path <+: a.path ∧ b.path ≠ a.path)) := by
  apply walk_pairwise hwf o _ _ _ k e d he
  · intro x y n s _ _ _ hs
    rw [hcf]; simp only [Bool.false_eq_true, if_false]
    rintro ⟨hp, _⟩
    have := hp.length_le; rw [hs] at this; simp at this; omega
  · intro x hx
    refine (children_pairwise_ne hwf o hx).imp ?_
    rintro c c' ⟨n, n', h1, h2, hne⟩ y y' _ _ ⟨t, ht⟩ ⟨t', ht'⟩ ⟨hp, _⟩
    rw [← ht, ← ht', h1, h2, List.append_assoc, List.append_assoc] at hp
    exact not_prefix_of_ne (Ne.symm hne) hp

/-! ## Part D: the machine -/

theorem doFollow_false (e : Entry) : e.doFollow false = e := by simp [Entry.doFollow]

theorem takeWhile_filterMap {α β} (f : α → Option β) : ∀ l : List α, (∀ x ∈ l, (f x).isSome = true) →
    ((l.map f).takeWhile Option.isSome).filterMap id = l.filterMap f
  | [], _ => rfl
  | x :: l, h => by
    have hx := h x List.mem_cons_self
    have ih := takeWhile_filterMap f l (fun y hy => h y (List.mem_cons_of_mem _ hy))
    obtain ⟨v, hv⟩ := Option.isSome_iff_exists.mp hx
    simp only [List.map_cons, List.takeWhile_cons, hv, Option.isSome_some, if_true, List.filterMap_cons, id, ih]

theorem sortEntries_of_pairwise (le : Entry → Entry → Bool) : ∀ l : List Entry,
    l.Pairwise (fun a b => le a b = true) → sortEntries le l = l
  | [], _ => rfl
  | x :: l, h => by
    have ih := sortEntries_of_pairwise le l (List.pairwise_cons.mp h).2
    unfold sortEntries at ih ⊢
    rw [List.foldr_cons, ih]
    cases l with
    | nil => rfl
    | cons y ys =>
      have : le x y = true := (List.pairwise_cons.mp h).1 y List.mem_cons_self
      simp [insertSorted, this]

theorem kidsRaw_nameLe {snap : Snap} (hwf : SnapWf snap) {e : Entry} (he : InSnap snap e) :
    (kidsRaw snap e).Pairwise (fun a b => nameLe a b = true) := by
  refine (kidsRaw_pairwise hwf he).imp ?_
  rintro c c' ⟨n, n', h1, h2, hlt⟩
  simp [nameLe, h1, h2, strLe, strLt_asymm _ _ hlt]

/-- the items of the directory iterator the model builds for `e` -/
def modelKids (snap : Snap) (o : Opts) (e : Entry) : List Entry :=
  if o.sorted then groupKinds o (kidsRaw snap e) else kidsRaw snap e

theorem mkIter_eq {snap : Snap} (hwf : SnapWf snap) {o : Opts} (hfol : o.follow = false) {e : Entry}
    (he : InSnap snap e) : mkIter snap o e.path = .ok ⟨e.path, o.sorted, modelKids snap o e⟩ := by
  have hkids : ∀ kids, kids = (e.files.getD []).map (fun n => e.path ++ [n]) →
      ((kids.map (fun k => alLookup k snap)).takeWhile Option.isSome).filterMap id = kidsRaw snap e := by
    intro kids hk; subst hk; rw [List.map_map]; exact takeWhile_filterMap _ _ (wf_lookup hwf he).2.2
  have hs := kidsRaw_nameLe hwf he
  unfold mkIter
  rw [he]
  simp only []
  rw [hkids _ (by cases e.files <;> rfl)]
  simp only [hfol, doFollow_false, List.map_id', modelKids, groupKinds]
  split
  · rename_i hso
    split
    · rw [sortEntries_of_pairwise _ _ (hs.filter _), sortEntries_of_pairwise _ _ (hs.filter _), hso]
    · split
      · rw [sortEntries_of_pairwise _ _ (hs.filter _), sortEntries_of_pairwise _ _ (hs.filter _), hso]
      · rw [sortEntries_of_pairwise _ _ hs, hso]
  · rename_i hso
    rw [Bool.not_eq_true] at hso
    rw [hso]


def frames (st : ISt) : List (List Entry) := st.iters.map (·.items)

/-- the options with the depth window's lower end and the kind filter removed, and the grouping
    the model actually applies: the walk with these options lists every entry the machine visits -/
def oM (o : Opts) : Opts :=
  { o with dirs := false, files := false, minDepth := 0, contentsFirst := false,
           dirsFirst := o.sorted && o.dirsFirst, filesFirst := o.sorted && o.filesFirst }

theorem modelKids_eq {snap : Snap} (hwf : SnapWf snap) {o : Opts} (hord : OrdOk o) {e : Entry} (he : InSnap snap e) :
    modelKids snap o e = children snap o e := by
  rw [children_eq hwf o he]
  unfold modelKids
  rcases hord with h | ⟨h1, h2⟩
  · rw [if_pos h]
  · split
    · rfl
    · simp [groupKinds, h1, h2]

/-- what the machine will still yield from a stack of frames (top first; the items of the top
    frame of a stack of height `n` are at depth `n`) -/
def remF (snap : Snap) (o : Opts) : List (List Entry) → List Entry
  | [] => []
  | items :: below => items.flatMap (fun x => W snap o x (below.length + 1)) ++ remF snap o below

/-- an upper bound of the number of loop iterations the machine still needs -/
def workF (snap : Snap) (o : Opts) : List (List Entry) → Nat
  | [] => 0
  | items :: below =>
    1 + 3 * (items.flatMap (fun x => W snap (oM o) x (below.length + 1))).length + workF snap o below

def FramesOk (snap : Snap) (fr : List (List Entry)) : Prop := ∀ items ∈ fr, ∀ x ∈ items, InSnap snap x

theorem children_oM {snap : Snap} (hwf : SnapWf snap) (o : Opts) {e : Entry} (he : InSnap snap e) :
    children snap (oM o) e = modelKids snap o e := by
  rw [children_eq hwf _ he]
  unfold modelKids groupKinds oM
  cases o.sorted <;> simp

theorem WA_unfold {snap : Snap} (hwf : SnapWf snap) (o : Opts) {e : Entry} (d : Nat) (he : InSnap snap e) :
    W snap (oM o) e d = e :: (if descends o e d then (modelKids snap o e).flatMap (fun c => W snap (oM o) c (d + 1)) else []) := by
  rw [W_unfold hwf (oM o) d he]
  have h1 : (oM o).contentsFirst = false := rfl
  have h2 : selected (oM o) e d = true := by simp [selected, oM]
  have h3 : descends (oM o) e d = descends o e d := rfl
  simp [h1, h2, h3, children_oM hwf o he]

theorem remF_step {snap : Snap} (hwf : SnapWf snap) {o : Opts} (hcf : o.contentsFirst = false)
    {x : Entry} (hx : InSnap snap x) (xs : List Entry) (fb : List (List Entry)) :
    remF snap o ((x :: xs) :: fb) =
      (if selected o x (fb.length + 1) then [x] else []) ++
        remF snap o ((if descends o x (fb.length + 1) then [children snap o x] else []) ++ xs :: fb) := by
  simp only [remF, List.flatMap_cons]
  rw [W_unfold hwf o _ hx]
  simp only [hcf, Bool.false_and, Bool.false_eq_true, if_false]
  by_cases hd : descends o x (fb.length + 1) = true <;> by_cases hs : selected o x (fb.length + 1) = true <;>
    simp [hd, hs, remF, List.append_assoc]

theorem workF_step {snap : Snap} (hwf : SnapWf snap) {o : Opts}
    {x : Entry} (hx : InSnap snap x) (xs : List Entry) (fb : List (List Entry)) :
    workF snap o ((if descends o x (fb.length + 1) then [modelKids snap o x] else []) ++ xs :: fb) + 2 ≤
      workF snap o ((x :: xs) :: fb) := by
  simp only [workF, List.flatMap_cons]
  rw [WA_unfold hwf o _ hx]
  by_cases hd : descends o x (fb.length + 1) = true <;> simp [hd, workF] <;> omega

theorem process_nf {σ} {snap : Snap} (hwf : SnapWf snap) {o : Opts} (hfol : o.follow = false)
    (st : ISt) (e : Entry) (w : σ) (he : InSnap snap e) :
    ∃ st1 : ISt, st1.started = st.started ∧ st1.deferred = st.deferred ∧
      frames st1 = (if descends o e st.iters.length then [modelKids snap o e] else []) ++ frames st ∧
      process snap o noPre st e w =
        if st.iters.length < o.minDepth then (none, st1, w)
        else if (o.files ∧ !e.file) ∨ (!o.files ∧ o.dirs ∧ !e.dir) then (none, st1, w)
        else if e.dir ∧ o.contentsFirst then (none, { st1 with deferred := (st.iters.length, e) :: st1.deferred }, w)
        else (some (.ok e), st1, w) := by
  unfold process
  simp only [hfol, noPre, mkIter_eq hwf hfol he]
  by_cases hd : descends o e st.iters.length = true
  · have hd' := hd
    simp only [descends, Bool.and_eq_true, Bool.not_eq_true', decide_eq_true_eq] at hd'
    obtain ⟨⟨h1, h2⟩, h3⟩ := hd'
    simp only [h1, h2, h3, hd]
    by_cases hc : o.sorted = true ∨ st.openDesc + 1 > o.maxDesc
    · simp only [hc, if_true, Bool.not_false, true_or, and_true, Bool.false_eq_true, false_and, if_false]
      exact ⟨{ st with iters := { path := e.path, cached := true, items := modelKids snap o e } :: st.iters },
        rfl, rfl, by simp [frames], rfl⟩
    · simp only [hc, if_true, Bool.not_false, true_or, and_true, Bool.false_eq_true, false_and, if_false]
      exact ⟨{ st with iters := { path := e.path, cached := o.sorted, items := modelKids snap o e } :: st.iters,
                       openDesc := st.openDesc + 1 },
        rfl, rfl, by simp [frames], rfl⟩
  · have hd' := hd
    simp only [descends, Bool.and_eq_true, Bool.not_eq_true', decide_eq_true_eq] at hd'
    refine ⟨st, rfl, rfl, by simp [hd], ?_⟩
    by_cases h1 : e.dir = true ∧ e.link = false
    · have h3 : ¬ st.iters.length < o.maxDepth := fun h => hd' ⟨h1, h⟩
      simp only [h1.1, h1.2, h3, if_true, Bool.not_false, true_or, and_true, Bool.false_eq_true, false_and, if_false]
    · have : ¬ (e.dir = true ∧ ((!e.link) = true ∨ false = true)) := by
        rintro ⟨h, h' | h'⟩
        · exact h1 ⟨h, by simpa using h'⟩
        · cases h'
      simp only [this, if_false]

theorem selected_model {o : Opts} (hk : KindOk o) (e : Entry) (d : Nat) :
    (¬ d < o.minDepth ∧ ¬ ((o.files = true ∧ (!e.file) = true) ∨ ((!o.files) = true ∧ o.dirs = true ∧ (!e.dir) = true))) ↔
      selected o e d = true := by
  unfold KindOk at hk
  simp only [selected, Bool.and_eq_true, decide_eq_true_eq, Bool.or_eq_true, Bool.not_eq_true']
  cases hf : o.files <;> cases hd : o.dirs <;> cases e.file <;> cases e.dir <;> simp_all <;> omega

/-- `process` when parents come first -/
theorem process_pre {σ} {snap : Snap} (hwf : SnapWf snap) {o : Opts} (hfol : o.follow = false)
    (hcf : o.contentsFirst = false) (hord : OrdOk o) (hk : KindOk o)
    (st : ISt) (e : Entry) (w : σ) (he : InSnap snap e) :
    ∃ st1 : ISt, st1.started = st.started ∧
      frames st1 = (if descends o e st.iters.length then [children snap o e] else []) ++ frames st ∧
      process snap o noPre st e w =
        (if selected o e st.iters.length then some (.ok e) else none, st1, w) := by
  obtain ⟨st1, h1, _, h3, h4⟩ := process_nf hwf hfol st e w he
  refine ⟨st1, h1, by rw [h3, modelKids_eq hwf hord he], ?_⟩
  rw [h4]
  have hsel := selected_model hk e st.iters.length
  by_cases hs : selected o e st.iters.length = true
  · obtain ⟨ha, hb⟩ := hsel.mpr hs
    simp only [hs, if_true, ha, if_false, hcf, Bool.false_eq_true, and_false, hb]
  · have := mt hsel.mp hs
    simp only [hs, if_false, hcf, Bool.false_eq_true, and_false]
    split
    · rfl
    · split
      · rfl
      · rename_i ha hb; exact absurd ⟨ha, hb⟩ this

theorem nextLoop_pre {σ} {snap : Snap} (hwf : SnapWf snap) {o : Opts} (hfol : o.follow = false)
    (hcf : o.contentsFirst = false) (hord : OrdOk o) (hk : KindOk o) :
    ∀ (f : Nat) (st : ISt) (w : σ), FramesOk snap (frames st) → workF snap o (frames st) < f →
      (remF snap o (frames st) = [] ∧ ∃ st', nextLoop snap o noPre f st w = (none, st', w)) ∨
      (∃ e r st', remF snap o (frames st) = e :: r ∧ nextLoop snap o noPre f st w = (some (.ok e), st', w) ∧
        st'.started = st.started ∧ FramesOk snap (frames st') ∧ remF snap o (frames st') = r ∧
        workF snap o (frames st') < workF snap o (frames st))
  | 0, _, _, _, h => by omega
  | f + 1, st, w, hok, hwork => by
    obtain ⟨started, openDesc, iters, deferred⟩ := st
    cases iters with
    | nil =>
      left
      refine ⟨rfl, ?_⟩
      exact ⟨⟨started, openDesc, [], deferred⟩, by simp [nextLoop, hcf]⟩
    | cons top below =>
      obtain ⟨tp, tc, items⟩ := top
      cases items with
      | nil =>
        have ih := nextLoop_pre hwf hfol hcf hord hk f
          ⟨started, if tc then openDesc else openDesc - 1, below, deferred⟩ w
          (fun its hi => hok its (List.mem_cons_of_mem _ hi))
          (by simp only [frames, List.map_cons, workF] at hwork ⊢; omega)
        have hn : nextLoop snap o noPre (f + 1) ⟨started, openDesc, ⟨tp, tc, []⟩ :: below, deferred⟩ w =
            nextLoop snap o noPre f ⟨started, if tc then openDesc else openDesc - 1, below, deferred⟩ w := by
          simp only [nextLoop, hcf]; simp
        rw [hn]
        have hr : remF snap o (frames ⟨started, openDesc, ⟨tp, tc, []⟩ :: below, deferred⟩) =
            remF snap o (frames ⟨started, if tc then openDesc else openDesc - 1, below, deferred⟩) := by
          simp [frames, remF]
        rw [hr]
        rcases ih with ih | ⟨e, r, st', h1, h2, h3, h4, h5, h6⟩
        · exact Or.inl ih
        · refine Or.inr ⟨e, r, st', h1, h2, h3, h4, h5, ?_⟩
          simp only [frames, List.map_cons, workF] at h6 ⊢; omega
      | cons x xs =>
        have hx : InSnap snap x := hok (x :: xs) (by simp [frames]) x List.mem_cons_self
        obtain ⟨st2, hs1, hs2, hs3⟩ := process_pre hwf hfol hcf hord hk
          ⟨started, openDesc, ⟨tp, tc, xs⟩ :: below, deferred⟩ x w hx
        have hlen : (⟨started, openDesc, ⟨tp, tc, xs⟩ :: below, deferred⟩ : ISt).iters.length = (frames ⟨started, openDesc, below, deferred⟩).length + 1 := by
          simp [frames]
        rw [hlen] at hs2 hs3
        have hfr : frames ⟨started, openDesc, ⟨tp, tc, x :: xs⟩ :: below, deferred⟩ =
            (x :: xs) :: frames ⟨started, openDesc, below, deferred⟩ := rfl
        have hfr1 : frames ⟨started, openDesc, ⟨tp, tc, xs⟩ :: below, deferred⟩ =
            xs :: frames ⟨started, openDesc, below, deferred⟩ := rfl
        rw [hfr1] at hs2
        have hrem := remF_step hwf hcf hx xs (frames ⟨started, openDesc, below, deferred⟩)
        have hwk := workF_step hwf (o := o) hx xs (frames ⟨started, openDesc, below, deferred⟩)
        rw [modelKids_eq hwf hord hx] at hwk
        rw [← hs2] at hrem hwk
        have hok2 : FramesOk snap (frames st2) := by
          rw [hs2]
          intro its hi y hy
          rcases List.mem_append.mp hi with hi | hi
          · split at hi
            · rw [List.mem_singleton] at hi; subst hi
              exact (mem_children hwf hx hy).choose_spec.2.2.2
            · cases hi
          · rcases List.mem_cons.mp hi with h | hi
            · rw [h] at hy
              exact hok (x :: xs) (by simp [frames]) y (List.mem_cons_of_mem _ hy)
            · exact hok its (List.mem_cons_of_mem _ hi) y hy
        have hn : nextLoop snap o noPre (f + 1) ⟨started, openDesc, ⟨tp, tc, x :: xs⟩ :: below, deferred⟩ w =
            if selected o x ((frames ⟨started, openDesc, below, deferred⟩).length + 1) then (some (.ok x), st2, w)
            else nextLoop snap o noPre f st2 w := by
          simp only [nextLoop, hcf, hfol, doFollow_false]
          simp only [Bool.false_eq_true, false_and, if_false, hs3]
          by_cases hsel : selected o x ((frames ⟨started, openDesc, below, deferred⟩).length + 1) = true <;>
            simp only [hsel, if_true, if_false, Bool.false_eq_true]
        rw [hn, hfr, hrem]
        by_cases hsel : selected o x ((frames ⟨started, openDesc, below, deferred⟩).length + 1) = true
        · simp only [hsel, if_true]
          refine Or.inr ⟨x, _, st2, rfl, rfl, hs1, hok2, rfl, ?_⟩
          omega
        · simp only [hsel]
          have ih := nextLoop_pre hwf hfol hcf hord hk f st2 w hok2 (by rw [hfr] at hwork; omega)
          rcases ih with ih | ⟨e, r, st', h1, h2, h3, h4, h5, h6⟩
          · exact Or.inl ih
          · refine Or.inr ⟨e, r, st', h1, h2, h3.trans hs1, h4, h5, ?_⟩
            omega

/-- what is still to be yielded from a machine state (before the first `next` the whole walk) -/
def remS (snap : Snap) (o : Opts) (rootE : Entry) (st : ISt) : List Entry :=
  if st.started then remF snap o (frames st) else W snap o rootE 0

def workS (snap : Snap) (o : Opts) (rootE : Entry) (st : ISt) : Nat :=
  if st.started then workF snap o (frames st) else 3 * (W snap (oM o) rootE 0).length

def StOk (snap : Snap) (st : ISt) : Prop := FramesOk snap (frames st) ∧ (st.started = false → st.iters = [])

theorem nextE_pre {σ} {snap : Snap} (hwf : SnapWf snap) {o : Opts} (hfol : o.follow = false)
    (hcf : o.contentsFirst = false) (hord : OrdOk o) (hk : KindOk o) {rootE : Entry} (hr : InSnap snap rootE)
    (f : Nat) (st : ISt) (w : σ) (hok : StOk snap st) (hwork : workS snap o rootE st < f) :
    (remS snap o rootE st = [] ∧ ∃ st', nextE snap o noPre rootE f st w = (none, st', w)) ∨
    (∃ e r st', remS snap o rootE st = e :: r ∧ nextE snap o noPre rootE f st w = (some (.ok e), st', w) ∧
      StOk snap st' ∧ remS snap o rootE st' = r ∧ workS snap o rootE st' < workS snap o rootE st) := by
  cases hs : st.started with
  | true =>
    have h1 : nextE snap o noPre rootE f st w = nextLoop snap o noPre f st w := by simp [nextE, hs]
    have h2 : remS snap o rootE st = remF snap o (frames st) := by simp [remS, hs]
    have h3 : workS snap o rootE st = workF snap o (frames st) := by simp [workS, hs]
    rw [h1, h2, h3]; rw [h3] at hwork
    rcases nextLoop_pre hwf hfol hcf hord hk f st w hok.1 hwork with h | ⟨e, r, st', a1, a2, a3, a4, a5, a6⟩
    · exact Or.inl h
    · have hs' : st'.started = true := a3.trans hs
      refine Or.inr ⟨e, r, st', a1, a2, ⟨a4, by simp [hs']⟩, by simp [remS, hs', a5], by simp [workS, hs', a6]⟩
  | false =>
    have hit := hok.2 hs
    obtain ⟨st1, b1, b2, b3⟩ := process_pre hwf hfol hcf hord hk { st with started := true } rootE w hr
    have hlen : ({ st with started := true } : ISt).iters.length = 0 := by simp [hit]
    rw [hlen] at b2 b3
    simp only [hit, frames, List.map_nil, List.append_nil] at b2
    have hs1 : st1.started = true := b1
    have h2 : remS snap o rootE st = W snap o rootE 0 := by simp [remS, hs]
    have h3 : workS snap o rootE st = 3 * (W snap (oM o) rootE 0).length := by simp [workS, hs]
    have hW := W_unfold hwf o 0 hr
    simp only [hcf, Bool.false_and, Bool.false_eq_true, if_false] at hW
    have hWA := WA_unfold hwf o 0 hr
    have hrem : remF snap o (frames st1) =
        if descends o rootE 0 then (children snap o rootE).flatMap (fun c => W snap o c (0 + 1)) else [] := by
      unfold frames; rw [b2]; split <;> simp [remF]
    have hwk : workF snap o (frames st1) + 2 ≤ 3 * (W snap (oM o) rootE 0).length := by
      unfold frames; rw [b2, hWA, modelKids_eq hwf hord hr]; split <;> simp [workF] <;> omega
    have hok1 : FramesOk snap (frames st1) := by
      unfold frames; rw [b2]
      intro its hi y hy
      split at hi
      · rw [List.mem_singleton] at hi; subst hi
        exact (mem_children hwf hr hy).choose_spec.2.2.2
      · cases hi
    have hn : nextE snap o noPre rootE f st w =
        if selected o rootE 0 then (some (.ok rootE), st1, w) else nextLoop snap o noPre f st1 w := by
      simp only [nextE, hs, hfol, doFollow_false, Bool.not_false, if_true, b3]
      by_cases hsel : selected o rootE 0 = true <;> simp only [hsel, if_true, if_false, Bool.false_eq_true]
    rw [hn, h2, h3, hW, ← hrem]; rw [h3] at hwork
    by_cases hsel : selected o rootE 0 = true
    · simp only [hsel, if_true]
      refine Or.inr ⟨rootE, _, st1, rfl, rfl, ⟨hok1, by simp [hs1]⟩, by simp [remS, hs1], ?_⟩
      simp only [workS, hs1, if_true]; omega
    · simp only [hsel, if_false, Bool.false_eq_true, List.nil_append]
      rcases nextLoop_pre hwf hfol hcf hord hk f st1 w hok1 (by omega) with h | ⟨e, r, st', a1, a2, a3, a4, a5, a6⟩
      · exact Or.inl h
      · have hs' : st'.started = true := a3.trans hs1
        refine Or.inr ⟨e, r, st', a1, a2, ⟨a4, by simp [hs']⟩, by simp [remS, hs', a5], ?_⟩
        simp only [workS, hs', if_true]; omega

theorem runIter_pre {snap : Snap} (hwf : SnapWf snap) {o : Opts} (hfol : o.follow = false)
    (hcf : o.contentsFirst = false) (hord : OrdOk o) (hk : KindOk o) {rootE : Entry} (hr : InSnap snap rootE) :
    ∀ (f : Nat) (st : ISt) (acc : List Entry), StOk snap st → workS snap o rootE st < f →
      runIter snap o noPre rootE (fun e (acc : List Entry) => (.ok (), e :: acc)) f st acc =
        (.ok (), (remS snap o rootE st).reverse ++ acc)
  | 0, _, _, _, h => by omega
  | f + 1, st, acc, hok, hwork => by
    unfold runIter
    rcases nextE_pre hwf hfol hcf hord hk hr (f + 1) st acc hok hwork with ⟨h1, st', h2⟩ | ⟨e, r, st', h1, h2, h3, h4, h5⟩
    · rw [h2, h1]; rfl
    · rw [h2, h1]
      simp only []
      rw [runIter_pre hwf hfol hcf hord hk hr f st' (e :: acc) h3 (by omega), h4]
      simp

theorem travFuel_gt (snap : Snap) : 3 * snap.length < travFuel snap := by
  unfold travFuel
  have : 64 * (snap.length + 2) * 1 ≤ 64 * (snap.length + 2) * (snap.length + 2) :=
    Nat.mul_le_mul_left _ (by omega)
  omega

/-- the number of visited entries is at most the number of snapshot entries -/
theorem W_length_le {snap : Snap} (hwf : SnapWf snap) (o : Opts) {e : Entry} (d : Nat) (he : InSnap snap e) :
    (W snap o e d).length ≤ snap.length := by
  have h1 := walk_nodup hwf o (pot snap e.path + 1) e d he
  have h2 : (walk snap o (pot snap e.path + 1) e d).map (·.path) ⊆ snap.map (·.1) := by
    intro p hp
    obtain ⟨y, hy, rfl⟩ := List.mem_map.mp hp
    exact List.mem_map.mpr ⟨(y.path, y), alLookup_mem (mem_walk hwf o _ e d y he hy).1, rfl⟩
  have := h1.length_le_of_subset h2
  simpa [W] using this

theorem collectEntries_pre {snap : Snap} (hwf : SnapWf snap) {o : Opts} (hfol : o.follow = false)
    (hcf : o.contentsFirst = false) (hord : OrdOk o) (hk : KindOk o) {rootE : Entry} (hr : InSnap snap rootE) :
    collectEntries snap o rootE = .ok (entriesSpec snap o rootE) := by
  unfold collectEntries
  have hw : workS snap o rootE {} < travFuel snap := by
    have := W_length_le hwf (oM o) 0 hr
    have := travFuel_gt snap
    simp only [workS]; simp; omega
  rw [runIter_pre hwf hfol hcf hord hk hr (travFuel snap) {} [] ⟨by simp [FramesOk, frames], fun _ => rfl⟩ hw]
  simp [remS, entriesSpec_eq_W hwf o hr]
/-! ### termination for every option combination -/

theorem process_coarse {σ} {snap : Snap} (hwf : SnapWf snap) {o : Opts} (hfol : o.follow = false)
    (st : ISt) (e : Entry) (w : σ) (he : InSnap snap e) :
    ∃ r st2, process snap o noPre st e w = (r, st2, w) ∧ (r = none ∨ r = some (.ok e)) ∧
      st2.started = st.started ∧
      frames st2 = (if descends o e st.iters.length then [modelKids snap o e] else []) ++ frames st ∧
      (st2.deferred = st.deferred ∨ (r = none ∧ st2.deferred = (st.iters.length, e) :: st.deferred)) := by
  obtain ⟨st1, h1, h2, h3, h4⟩ := process_nf hwf hfol st e w he
  rw [h4]
  split
  · exact ⟨_, _, rfl, Or.inl rfl, h1, h3, Or.inl h2⟩
  · split
    · exact ⟨_, _, rfl, Or.inl rfl, h1, h3, Or.inl h2⟩
    · split
      · exact ⟨_, _, rfl, Or.inl rfl, h1, h3, Or.inr ⟨rfl, by simp [h2]⟩⟩
      · exact ⟨_, _, rfl, Or.inr rfl, h1, h3, Or.inl h2⟩

def workG (snap : Snap) (o : Opts) (st : ISt) : Nat := st.deferred.length + workF snap o (frames st)


/-- `l₁` is contained in `l₂`, also counting paths with multiplicity -/
def Sub (l₁ l₂ : List Entry) : Prop :=
  (∀ y ∈ l₁, y ∈ l₂) ∧ ∀ p : FsPath, (l₁.map (·.path)).count p ≤ (l₂.map (·.path)).count p

theorem Sub.refl (l : List Entry) : Sub l l := ⟨fun _ h => h, fun _ => Nat.le_refl _⟩

theorem Sub.trans {a b c : List Entry} (h1 : Sub a b) (h2 : Sub b c) : Sub a c :=
  ⟨fun y hy => h2.1 y (h1.1 y hy), fun p => Nat.le_trans (h1.2 p) (h2.2 p)⟩

theorem Sub.nodup {a b : List Entry} (h : Sub a b) (hb : (b.map (·.path)).Nodup) : (a.map (·.path)).Nodup := by
  rw [List.nodup_iff_count] at hb ⊢
  exact fun p => Nat.le_trans (h.2 p) (hb p)

theorem sub_yield (x : Entry) (a b : List Entry) : Sub (x :: (a ++ b)) (a ++ x :: b) := by
  refine ⟨fun y hy => by simp at hy ⊢; rcases hy with h | h | h <;> simp [h], fun p => ?_⟩
  simp [List.count_cons] <;> omega

theorem sub_drop (x : Entry) (a b : List Entry) : Sub (a ++ b) (a ++ x :: b) := by
  refine ⟨fun y hy => by simp at hy ⊢; rcases hy with h | h <;> simp [h], fun p => ?_⟩
  simp [List.count_cons] <;> omega

theorem sub_defer (x : Entry) (a b : List Entry) : Sub ((x :: a) ++ b) (a ++ x :: b) := sub_yield x a b

theorem sub_acc {e : Entry} {a b b' : List Entry} (h : Sub (e :: b') b) : Sub ((e :: a) ++ b') (a ++ b) := by
  refine ⟨fun y hy => ?_, fun p => ?_⟩
  · simp only [List.cons_append, List.mem_cons, List.mem_append] at hy ⊢
    rcases hy with rfl | h' | h'
    · exact Or.inr (h.1 _ List.mem_cons_self)
    · exact Or.inl h'
    · exact Or.inr (h.1 _ (List.mem_cons_of_mem _ h'))
  · have := h.2 p
    simp [List.count_cons] at this ⊢; omega

theorem sub_left {a b c : List Entry} (h : Sub (a ++ b) c) : Sub a c :=
  ⟨fun y hy => h.1 y (List.mem_append_left _ hy), fun p => by have := h.2 p; simp at this; omega⟩

/-- everything the machine may still yield: the deferred directories and every entry it will
    still visit (the walk without filters) -/
def pendS (snap : Snap) (o : Opts) (st : ISt) : List Entry :=
  st.deferred.map (·.2) ++ remF snap (oM o) (frames st)

theorem remA_step {snap : Snap} (hwf : SnapWf snap) (o : Opts) {x : Entry} (hx : InSnap snap x)
    (xs : List Entry) (fb : List (List Entry)) :
    remF snap (oM o) ((x :: xs) :: fb) =
      x :: remF snap (oM o) ((if descends o x (fb.length + 1) then [modelKids snap o x] else []) ++ xs :: fb) := by
  have h := remF_step hwf (o := oM o) rfl hx xs fb
  have h2 : selected (oM o) x (fb.length + 1) = true := by simp [selected, oM]
  have h3 : descends (oM o) x (fb.length + 1) = descends o x (fb.length + 1) := rfl
  rw [h, h2, h3, children_oM hwf o hx]
  rfl

theorem nextLoop_term {σ} {snap : Snap} (hwf : SnapWf snap) {o : Opts} (hfol : o.follow = false) :
    ∀ (f : Nat) (st : ISt) (w : σ), FramesOk snap (frames st) → workG snap o st < f →
      ∃ r st', nextLoop snap o noPre f st w = (r, st', w) ∧
        (r = none ∨ ∃ e, r = some (.ok e) ∧ st'.started = st.started ∧ FramesOk snap (frames st') ∧
          workG snap o st' < workG snap o st ∧ Sub (e :: pendS snap o st') (pendS snap o st))
  | 0, _, _, _, h => by omega
  | f + 1, st, w, hok, hwork => by
    obtain ⟨started, openDesc, iters, deferred⟩ := st
    cases iters with
    | nil =>
      cases deferred with
      | nil => exact ⟨none, ⟨started, openDesc, [], []⟩, by simp only [nextLoop]; split <;> rfl, Or.inl rfl⟩
      | cons d ds =>
        by_cases hcf : o.contentsFirst = true
        · exact ⟨some (.ok d.2), ⟨started, openDesc, [], ds⟩, by simp only [nextLoop, hcf, if_true],
            Or.inr ⟨d.2, rfl, rfl, hok, by simp [workG, frames], Sub.refl _⟩⟩
        · exact ⟨none, ⟨started, openDesc, [], d :: ds⟩, by simp only [nextLoop, hcf, Bool.false_eq_true, if_false],
            Or.inl rfl⟩
    | cons top below =>
      by_cases hdef : o.contentsFirst = true ∧ deferredReady (top :: below).length deferred = true
      · cases deferred with
        | nil => simp [deferredReady] at hdef
        | cons d ds =>
          exact ⟨some (.ok d.2), ⟨started, openDesc, top :: below, ds⟩, by simp only [nextLoop, hdef, and_self, if_true],
            Or.inr ⟨d.2, rfl, rfl, hok, by simp [workG, frames], Sub.refl _⟩⟩
      · obtain ⟨tp, tc, items⟩ := top
        cases items with
        | nil =>
          have hn : nextLoop snap o noPre (f + 1) ⟨started, openDesc, ⟨tp, tc, []⟩ :: below, deferred⟩ w =
              nextLoop snap o noPre f ⟨started, if tc then openDesc else openDesc - 1, below, deferred⟩ w := by
            simp only [nextLoop, hdef, if_false]
          have hw1 : workG snap o ⟨started, if tc then openDesc else openDesc - 1, below, deferred⟩ + 1 =
              workG snap o ⟨started, openDesc, ⟨tp, tc, []⟩ :: below, deferred⟩ := by
            simp [workG, frames, workF]; omega
          obtain ⟨r, st', h1, h2⟩ := nextLoop_term hwf hfol f
            ⟨started, if tc then openDesc else openDesc - 1, below, deferred⟩ w
            (fun its hi => hok its (List.mem_cons_of_mem _ hi)) (by omega)
          refine ⟨r, st', by rw [hn, h1], ?_⟩
          have hp : pendS snap o ⟨started, openDesc, ⟨tp, tc, []⟩ :: below, deferred⟩ =
              pendS snap o ⟨started, if tc then openDesc else openDesc - 1, below, deferred⟩ := by
            simp [pendS, frames, remF]
          rcases h2 with h2 | ⟨e, a1, a2, a3, a4, a5⟩
          · exact Or.inl h2
          · exact Or.inr ⟨e, a1, a2, a3, by omega, by rw [hp]; exact a5⟩
        | cons x xs =>
          have hx : InSnap snap x := hok (x :: xs) (by simp [frames]) x List.mem_cons_self
          obtain ⟨r, st2, b1, b2, b3, b4, b5⟩ := process_coarse hwf hfol
            ⟨started, openDesc, ⟨tp, tc, xs⟩ :: below, deferred⟩ x w hx
          have hfr1 : frames ⟨started, openDesc, ⟨tp, tc, xs⟩ :: below, deferred⟩ =
              xs :: frames ⟨started, openDesc, below, deferred⟩ := rfl
          have hlen : (⟨started, openDesc, ⟨tp, tc, xs⟩ :: below, deferred⟩ : ISt).iters.length =
              (frames ⟨started, openDesc, below, deferred⟩).length + 1 := by simp [frames]
          rw [hlen, hfr1] at b4
          have hwk := workF_step hwf (o := o) hx xs (frames ⟨started, openDesc, below, deferred⟩)
          rw [← b4] at hwk
          have hw2 : workG snap o st2 < workG snap o ⟨started, openDesc, ⟨tp, tc, x :: xs⟩ :: below, deferred⟩ := by
            have : frames ⟨started, openDesc, ⟨tp, tc, x :: xs⟩ :: below, deferred⟩ =
              (x :: xs) :: frames ⟨started, openDesc, below, deferred⟩ := rfl
            have b5' : st2.deferred.length ≤ deferred.length + 1 := by
              rcases b5 with h | ⟨_, h⟩ <;> simp [h]
            simp only [workG, this]
            omega
          have hok2 : FramesOk snap (frames st2) := by
            rw [b4]
            intro its hi y hy
            rcases List.mem_append.mp hi with hi | hi
            · split at hi
              · rw [List.mem_singleton] at hi; subst hi
                rw [← children_oM hwf o hx] at hy
                exact (mem_children hwf hx hy).choose_spec.2.2.2
              · cases hi
            · rcases List.mem_cons.mp hi with h | hi
              · rw [h] at hy
                exact hok (x :: xs) (by simp [frames]) y (List.mem_cons_of_mem _ hy)
              · exact hok its (List.mem_cons_of_mem _ hi) y hy
          have hn : nextLoop snap o noPre (f + 1) ⟨started, openDesc, ⟨tp, tc, x :: xs⟩ :: below, deferred⟩ w =
              match r with
              | some r' => (some r', st2, w)
              | none => nextLoop snap o noPre f st2 w := by
            simp only [nextLoop, hdef, if_false, hfol, doFollow_false, b1]
            cases r <;> rfl
          rw [hn]
          have hpend : pendS snap o ⟨started, openDesc, ⟨tp, tc, x :: xs⟩ :: below, deferred⟩ =
              deferred.map (·.2) ++ x :: remF snap (oM o) (frames st2) := by
            have : frames ⟨started, openDesc, ⟨tp, tc, x :: xs⟩ :: below, deferred⟩ =
              (x :: xs) :: frames ⟨started, openDesc, below, deferred⟩ := rfl
            simp only [pendS, this]
            rw [remA_step hwf o hx, ← b4]
          rcases b2 with rfl | rfl
          · obtain ⟨r, st', h1, h2⟩ := nextLoop_term hwf hfol f st2 w hok2 (by omega)
            refine ⟨r, st', h1, ?_⟩
            rcases h2 with h2 | ⟨e, a1, a2, a3, a4, a5⟩
            · exact Or.inl h2
            · refine Or.inr ⟨e, a1, a2.trans b3, a3, by omega, a5.trans ?_⟩
              rw [hpend]; unfold pendS
              rcases b5 with h | ⟨_, h⟩
              · rw [h]; exact sub_drop x _ _
              · rw [h]; exact sub_defer x _ _
          · refine ⟨_, st2, rfl, Or.inr ⟨x, rfl, b3, hok2, hw2, ?_⟩⟩
            rw [hpend]; unfold pendS
            rcases b5 with h | ⟨h, _⟩
            · rw [h]; exact sub_yield x _ _
            · cases h

def workGS (snap : Snap) (o : Opts) (rootE : Entry) (st : ISt) : Nat :=
  if st.started then workG snap o st else 3 * (W snap (oM o) rootE 0).length

def pendGS (snap : Snap) (o : Opts) (rootE : Entry) (st : ISt) : List Entry :=
  if st.started then pendS snap o st else W snap (oM o) rootE 0

def StOkG (snap : Snap) (st : ISt) : Prop :=
  FramesOk snap (frames st) ∧ (st.started = false → st.iters = [] ∧ st.deferred = [])

theorem nextE_term {σ} {snap : Snap} (hwf : SnapWf snap) {o : Opts} (hfol : o.follow = false)
    {rootE : Entry} (hr : InSnap snap rootE)
    (f : Nat) (st : ISt) (w : σ) (hok : StOkG snap st) (hwork : workGS snap o rootE st < f) :
    ∃ r st', nextE snap o noPre rootE f st w = (r, st', w) ∧
      (r = none ∨ ∃ e, r = some (.ok e) ∧ StOkG snap st' ∧ workGS snap o rootE st' < workGS snap o rootE st ∧
        Sub (e :: pendGS snap o rootE st') (pendGS snap o rootE st)) := by
  cases hs : st.started with
  | true =>
    have h1 : nextE snap o noPre rootE f st w = nextLoop snap o noPre f st w := by simp [nextE, hs]
    have h3 : workGS snap o rootE st = workG snap o st := by simp [workGS, hs]
    rw [h1, h3]; rw [h3] at hwork
    obtain ⟨r, st', a1, a2⟩ := nextLoop_term hwf hfol f st w hok.1 hwork
    refine ⟨r, st', a1, ?_⟩
    rcases a2 with a2 | ⟨e, b1, b2, b3, b4, b5⟩
    · exact Or.inl a2
    · have hs' : st'.started = true := b2.trans hs
      exact Or.inr ⟨e, b1, ⟨b3, by simp [hs']⟩, by simp [workGS, hs', b4], by simpa [pendGS, hs, hs'] using b5⟩
  | false =>
    obtain ⟨hit, hdf⟩ := hok.2 hs
    obtain ⟨r, st2, b1, b2, b3, b4, b5⟩ := process_coarse hwf hfol { st with started := true } rootE w hr
    have hlen : ({ st with started := true } : ISt).iters.length = 0 := by simp [hit]
    rw [hlen] at b4
    simp only [hit, hdf, frames, List.map_nil, List.append_nil] at b4 b5
    have b5' : st2.deferred.length ≤ 1 := by rcases b5 with h | ⟨_, h⟩ <;> simp [h]
    have hs2 : st2.started = true := b3
    have h3 : workGS snap o rootE st = 3 * (W snap (oM o) rootE 0).length := by simp [workGS, hs]
    have hWA := WA_unfold hwf o 0 hr
    have hwk : workG snap o st2 + 1 ≤ 3 * (W snap (oM o) rootE 0).length := by
      unfold workG frames; rw [b4, hWA]; split <;> simp [workF] <;> omega
    have hpg : pendGS snap o rootE st = rootE :: remF snap (oM o) (frames st2) := by
      simp only [pendGS, hs, Bool.false_eq_true, if_false]
      unfold frames; rw [b4, hWA]; split <;> simp [remF]
    have hok2 : FramesOk snap (frames st2) := by
      unfold frames; rw [b4]
      intro its hi y hy
      split at hi
      · rw [List.mem_singleton] at hi; subst hi
        rw [← children_oM hwf o hr] at hy
        exact (mem_children hwf hr hy).choose_spec.2.2.2
      · cases hi
    have hn : nextE snap o noPre rootE f st w =
        match r with
        | some r' => (some r', st2, w)
        | none => nextLoop snap o noPre f st2 w := by
      simp only [nextE, hs, hfol, doFollow_false, Bool.not_false, if_true, b1]
      cases r <;> rfl
    rw [hn, h3]; rw [h3] at hwork
    rcases b2 with rfl | rfl
    · obtain ⟨r, st', a1, a2⟩ := nextLoop_term hwf hfol f st2 w hok2 (by omega)
      refine ⟨r, st', a1, ?_⟩
      rcases a2 with a2 | ⟨e, c1, c2, c3, c4, c5⟩
      · exact Or.inl a2
      · have hs' : st'.started = true := c2.trans hs2
        refine Or.inr ⟨e, c1, ⟨c3, by simp [hs']⟩, ?_, ?_⟩
        · simp only [workGS, hs', if_true]; omega
        · rw [hpg]; simp only [pendGS, hs', if_true]
          refine c5.trans ?_
          unfold pendS
          rcases b5 with h | ⟨_, h⟩
          · rw [h]; exact sub_drop rootE [] _
          · rw [h]; exact Sub.refl _
    · refine ⟨_, st2, rfl, Or.inr ⟨rootE, rfl, ⟨hok2, by simp [hs2]⟩, ?_, ?_⟩⟩
      · simp only [workGS, hs2, if_true]; omega
      · rw [hpg]; simp only [pendGS, hs2, if_true]
        unfold pendS
        rcases b5 with h | ⟨h, _⟩
        · rw [h]; exact Sub.refl _
        · cases h

theorem runIter_term {snap : Snap} (hwf : SnapWf snap) {o : Opts} (hfol : o.follow = false)
    {rootE : Entry} (hr : InSnap snap rootE) :
    ∀ (f : Nat) (st : ISt) (acc : List Entry), StOkG snap st → workGS snap o rootE st < f →
      ∃ acc', runIter snap o noPre rootE (fun e (acc : List Entry) => (.ok (), e :: acc)) f st acc = (.ok (), acc') ∧
        Sub acc' (acc ++ pendGS snap o rootE st)
  | 0, _, _, _, h => by omega
  | f + 1, st, acc, hok, hwork => by
    unfold runIter
    obtain ⟨r, st', h1, h2⟩ := nextE_term hwf hfol hr (f + 1) st acc hok hwork
    rw [h1]
    rcases h2 with rfl | ⟨e, rfl, h3, h4, h5⟩
    · exact ⟨acc, rfl, sub_left (Sub.refl _)⟩
    · simp only []
      obtain ⟨acc', g1, g2⟩ := runIter_term hwf hfol hr f st' (e :: acc) h3 (by omega)
      exact ⟨acc', g1, g2.trans (sub_acc h5)⟩

/-- for every option combination the traversal of a well-formed snapshot ends, and without an error -/
theorem collectEntries_ok {snap : Snap} (hwf : SnapWf snap) {o : Opts} (hfol : o.follow = false)
    {rootE : Entry} (hr : InSnap snap rootE) : ∃ es, collectEntries snap o rootE = .ok es := by
  unfold collectEntries
  have hw : workGS snap o rootE {} < travFuel snap := by
    have := W_length_le hwf (oM o) 0 hr
    have := travFuel_gt snap
    simp only [workGS]; simp; omega
  obtain ⟨acc', h, _⟩ := runIter_term hwf hfol hr (travFuel snap) {} []
    ⟨by simp [FramesOk, frames], fun _ => ⟨rfl, rfl⟩⟩ hw
  rw [h]; exact ⟨_, rfl⟩

theorem sub_reverse (l : List Entry) : Sub l.reverse l :=
  ⟨fun y hy => by simpa using hy, fun p => by simp⟩

/-- for every option combination: what is yielded is contained, with multiplicity of paths, in the
    list of visited entries (the walk without filters) -/
theorem collectEntries_sub {snap : Snap} (hwf : SnapWf snap) {o : Opts} (hfol : o.follow = false)
    {rootE : Entry} (hr : InSnap snap rootE) :
    ∃ es, collectEntries snap o rootE = .ok es ∧ Sub es (W snap (oM o) rootE 0) := by
  unfold collectEntries
  have hw : workGS snap o rootE {} < travFuel snap := by
    have := W_length_le hwf (oM o) 0 hr
    have := travFuel_gt snap
    simp only [workGS]; simp; omega
  obtain ⟨acc', h, hsub⟩ := runIter_term hwf hfol hr (travFuel snap) {} []
    ⟨by simp [FramesOk, frames], fun _ => ⟨rfl, rfl⟩⟩ hw
  rw [h]
  refine ⟨_, rfl, (sub_reverse acc').trans ?_⟩
  simpa [pendGS] using hsub

/-! ### more structure: depth bound, lexicographic order, sibling order -/

theorem mem_walk_depth_le {snap : Snap} (hwf : SnapWf snap) (o : Opts) :
    ∀ (k : Nat) (e : Entry) (d : Nat) (y : Entry), InSnap snap e → y ∈ walk snap o k e d →
      y = e ∨ d + (y.path.length - e.path.length) ≤ o.maxDepth
  | 0, _, _, _, _, h => by simp [walk] at h
  | k + 1, e, d, y, he, h => by
    rcases mem_walk_succ.mp h with ⟨_, rfl⟩ | ⟨hd, c, hc, hy⟩
    · exact Or.inl rfl
    · right
      obtain ⟨n, _, _, hp, hin⟩ := mem_children hwf he hc
      simp only [descends, Bool.and_eq_true, decide_eq_true_eq] at hd
      have hpre := (mem_walk_prefix hwf o hin hy).length_le
      rw [hp] at hpre
      simp only [List.length_append, List.length_cons, List.length_nil] at hpre
      rcases mem_walk_depth_le hwf o k c (d + 1) y hin hy with rfl | ih
      · rw [hp]; simp; omega
      · rw [hp] at ih
        simp only [List.length_append, List.length_cons, List.length_nil] at ih
        omega

theorem pathLt_prefix : ∀ (p : FsPath) (n : Str) (s : List Str), pathLt p (p ++ n :: s) = true
  | [], _, _ => rfl
  | a :: p, n, s => by
    simp only [List.cons_append, pathLt, strLt_irrefl, Bool.false_eq_true, if_false]
    exact pathLt_prefix p n s

theorem pathLt_sib : ∀ (p : FsPath) {n n' : Str} (t t' : List Str), strLt n n' = true →
    pathLt (p ++ n :: t) (p ++ n' :: t') = true
  | [], n, n', t, t', h => by simp [pathLt, h]
  | a :: p, n, n', t, t', h => by
    simp only [List.cons_append, pathLt, strLt_irrefl, Bool.false_eq_true, if_false]
    exact pathLt_sib p t t' h

/-- without grouping the walk lists the paths in lexicographic order of their component lists
    (siblings by name, parents before their contents) -/
theorem walk_lex {snap : Snap} (hwf : SnapWf snap) (o : Opts) (hcf : o.contentsFirst = false)
    (h1 : o.dirsFirst = false) (h2 : o.filesFirst = false)
    (k : Nat) (e : Entry) (d : Nat) (he : InSnap snap e) :
    ((walk snap o k e d).map (·.path)).Pairwise (fun p q => pathLt p q = true) := by
  rw [List.pairwise_map]
  apply walk_pairwise hwf o _ _ _ k e d he
  · intro x y n s _ _ _ hs
    rw [hcf]; simp only [Bool.false_eq_true, if_false]
    rw [hs]; exact pathLt_prefix _ _ _
  · intro x hx
    rw [children_eq hwf o hx]
    have : groupKinds o (kidsRaw snap x) = kidsRaw snap x := by simp [groupKinds, h1, h2]
    rw [this]
    refine (kidsRaw_pairwise hwf hx).imp ?_
    rintro c c' ⟨n, n', e1, e2, hlt⟩ y y' _ _ ⟨t, ht⟩ ⟨t', ht'⟩
    rw [← ht, ← ht', e1, e2, List.append_assoc, List.append_assoc]
    exact pathLt_sib _ _ _ hlt

theorem sibOrd_mk {o : Opts} {a b : Entry}
    (h1 : o.dirsFirst = true → (a.dir = true ∨ b.dir = false))
    (h2 : o.dirsFirst = false → o.filesFirst = true → (a.dir = false ∨ b.dir = true))
    (h3 : ((o.dirsFirst = false ∧ o.filesFirst = false) ∨ a.dir = b.dir) →
      ∃ p n n', a.path = p ++ [n] ∧ b.path = p ++ [n'] ∧ strLt n n' = true) : sibOrd o a b := ⟨h1, h2, h3⟩

theorem children_sibOrd {snap : Snap} (hwf : SnapWf snap) (o : Opts) {e : Entry} (he : InSnap snap e) :
    (children snap o e).Pairwise (sibOrd o) := by
  rw [children_eq hwf o he]
  have hraw : (kidsRaw snap e).Pairwise (fun c c' => ∃ p n n', c.path = p ++ [n] ∧ c'.path = p ++ [n'] ∧ strLt n n' = true) :=
    (kidsRaw_pairwise hwf he).imp (fun ⟨n, n', h1, h2, h3⟩ => ⟨_, n, n', h1, h2, h3⟩)
  unfold groupKinds
  split
  · rename_i hd
    rw [List.pairwise_append]
    refine ⟨(List.Pairwise.and_mem.mp (hraw.filter _)).imp ?_, (List.Pairwise.and_mem.mp (hraw.filter _)).imp ?_, ?_⟩
    · rintro a b ⟨ha, hb, hR⟩
      simp only [List.mem_filter] at ha hb
      exact sibOrd_mk (fun _ => Or.inl ha.2) (fun h => by rw [hd] at h; cases h) (fun _ => hR)
    · rintro a b ⟨ha, hb, hR⟩
      simp only [List.mem_filter, Bool.not_eq_true'] at ha hb
      exact sibOrd_mk (fun _ => Or.inr hb.2) (fun h => by rw [hd] at h; cases h) (fun _ => hR)
    · intro a ha b hb
      simp only [List.mem_filter, Bool.not_eq_true'] at ha hb
      refine sibOrd_mk (fun _ => Or.inl ha.2) (fun h => by rw [hd] at h; cases h) ?_
      rintro (⟨h, _⟩ | h)
      · rw [hd] at h; cases h
      · rw [ha.2, hb.2] at h; cases h
  · rename_i hd
    rw [Bool.not_eq_true] at hd
    split
    · rename_i hf
      rw [List.pairwise_append]
      refine ⟨(List.Pairwise.and_mem.mp (hraw.filter _)).imp ?_, (List.Pairwise.and_mem.mp (hraw.filter _)).imp ?_, ?_⟩
      · rintro a b ⟨ha, hb, hR⟩
        simp only [List.mem_filter, Bool.not_eq_true'] at ha hb
        exact sibOrd_mk (fun h => by rw [hd] at h; cases h) (fun _ _ => Or.inl ha.2) (fun _ => hR)
      · rintro a b ⟨ha, hb, hR⟩
        simp only [List.mem_filter] at ha hb
        exact sibOrd_mk (fun h => by rw [hd] at h; cases h) (fun _ _ => Or.inr hb.2) (fun _ => hR)
      · intro a ha b hb
        simp only [List.mem_filter, Bool.not_eq_true'] at ha hb
        refine sibOrd_mk (fun h => by rw [hd] at h; cases h) (fun _ _ => Or.inl ha.2) ?_
        rintro (⟨_, h⟩ | h)
        · rw [hf] at h; cases h
        · rw [ha.2, hb.2] at h; cases h
    · rename_i hf
      rw [Bool.not_eq_true] at hf
      exact hraw.imp (fun hR => sibOrd_mk (fun h => by rw [hd] at h; cases h) (fun _ h => by rw [hf] at h; cases h) (fun _ => hR))

theorem inSnap_eq_of_path {snap : Snap} {a b : Entry} (ha : InSnap snap a) (hb : InSnap snap b)
    (h : a.path = b.path) : a = b := by
  unfold InSnap at ha hb
  rw [h, hb] at ha
  exact (Option.some.inj ha).symm

/-- two yielded siblings come in the order of `sibOrd` -/
theorem walk_siblings {snap : Snap} (hwf : SnapWf snap) (o : Opts)
    (k : Nat) (e : Entry) (d : Nat) (he : InSnap snap e) :
    (walk snap o k e d).Pairwise (fun a b => ∀ p n n', a.path = p ++ [n] → b.path = p ++ [n'] → sibOrd o a b) := by
  apply walk_pairwise hwf o _ _ _ k e d he
  · intro x y n s _ _ _ hs
    have hne : ∀ p m m', ¬ (x.path = p ++ [m] ∧ y.path = p ++ [m']) := by
      rintro p m m' ⟨h1, h2⟩
      rw [h1, h2] at hs
      have := congrArg List.length hs
      simp at this
    split
    · intro p m m' h1 h2; exact absurd ⟨h2, h1⟩ (hne p m' m)
    · intro p m m' h1 h2; exact absurd ⟨h1, h2⟩ (hne p m m')
  · intro x hx
    have h1 := List.Pairwise.and_mem.mp ((children_pairwise_ne hwf o hx).and (children_sibOrd hwf o hx))
    refine h1.imp ?_
    rintro c c' ⟨hc, hc', ⟨m, m', e1, e2, hne⟩, hso⟩ y y' hy hy' ⟨t, ht⟩ ⟨t', ht'⟩ p n n' hp hp'
    have hic := (mem_children hwf hx hc).choose_spec.2.2.2
    have hic' := (mem_children hwf hx hc').choose_spec.2.2.2
    rw [e1, List.append_assoc, List.singleton_append] at ht
    rw [e2, List.append_assoc, List.singleton_append] at ht'
    have e3 : (y.path).dropLast = x.path ++ (m :: t).dropLast := by
      rw [← ht]; exact List.dropLast_append_of_ne_nil (by simp)
    have e4 : (y'.path).dropLast = x.path ++ (m' :: t').dropLast := by
      rw [← ht']; exact List.dropLast_append_of_ne_nil (by simp)
    have e5 : (y.path).dropLast = (y'.path).dropLast := by rw [hp, hp']; simp
    rw [e3, e4] at e5
    have hd := List.append_cancel_left e5
    cases t with
    | nil =>
      cases t' with
      | nil =>
        have : y = c := inSnap_eq_of_path hy hic (by rw [← ht, e1])
        have : y' = c' := inSnap_eq_of_path hy' hic' (by rw [← ht', e2])
        subst_vars; exact hso
      | cons b bs => simp at hd
    | cons a as =>
      cases t' with
      | nil => simp at hd
      | cons b bs =>
        simp at hd
        exact absurd hd.1 hne

/-! ### contents first (every depth window and kind filter) -/

/-- what an entry at depth `d` contributes itself -/
def selfS (o : Opts) (e : Entry) (d : Nat) : List Entry := if selected o e d then [e] else []

theorem W_cf_dir {snap : Snap} (hwf : SnapWf snap) {o : Opts} (hcf : o.contentsFirst = true) {e : Entry} (d : Nat)
    (he : InSnap snap e) (hd : e.dir = true) :
    W snap o e d = (if descends o e d then (children snap o e).flatMap (fun c => W snap o c (d + 1)) else []) ++
      selfS o e d := by
  rw [W_unfold hwf o d he]
  simp [hcf, hd, selfS]

theorem W_cf_file {snap : Snap} (hwf : SnapWf snap) {o : Opts} {e : Entry} (d : Nat)
    (he : InSnap snap e) (hd : e.dir = false) : W snap o e d = selfS o e d := by
  rw [W_unfold hwf o d he]
  simp [hd, descends, selfS]

/-- frames interleaved with the deferred directories: after the frame of height `j` comes the
    directory found at depth `j - 1` (the one the frame belongs to), if it was deferred -/
def remQ (snap : Snap) (o : Opts) : List (List Entry) → List (Nat × Entry) → List Entry
  | [], _ => []
  | items :: below, [] => items.flatMap (fun x => W snap o x (below.length + 1)) ++ remQ snap o below []
  | items :: below, (d, e) :: ds =>
    items.flatMap (fun x => W snap o x (below.length + 1)) ++
      (if d = below.length then e :: remQ snap o below ds else remQ snap o below ((d, e) :: ds))

/-- what the machine will still yield with `contents_first`: a deferred directory whose depth the
    stack has come back to is released first -/
def remP (snap : Snap) (o : Opts) (fr : List (List Entry)) : List (Nat × Entry) → List Entry
  | [] => remQ snap o fr []
  | (d, e) :: ds => if fr.length ≤ d then e :: remQ snap o fr ds else remQ snap o fr ((d, e) :: ds)

/-- the depths recorded in the deferred stack decrease strictly from the top, below the bound `n` -/
def DOk : Nat → List (Nat × Entry) → Prop
  | _, [] => True
  | n, (d, _) :: ds => d < n ∧ DOk d ds

theorem DOk.mono {n n' : Nat} (h : n ≤ n') : ∀ {df : List (Nat × Entry)}, DOk n df → DOk n' df
  | [], _ => trivial
  | (_, _) :: _, ⟨h1, h2⟩ => ⟨by omega, h2⟩

/-- the deferred stack against the stack of frames: depths strictly decreasing, at most the height
    of the stack (equal only for a directory that is to be released next) -/
def Dinv (fr : List (List Entry)) (df : List (Nat × Entry)) : Prop := DOk (fr.length + 1) df

theorem remP_not_ready (snap : Snap) (o : Opts) (fr : List (List Entry)) (df : List (Nat × Entry))
    (h : deferredReady fr.length df = false) : remP snap o fr df = remQ snap o fr df := by
  cases df with
  | nil => rfl
  | cons d ds =>
    obtain ⟨dd, de⟩ := d
    simp only [deferredReady, decide_eq_false_iff_not] at h
    simp [remP, h]

theorem remP_pop_deferred (snap : Snap) (o : Opts) (fr : List (List Entry)) (d : Nat × Entry) (ds : List (Nat × Entry))
    (hi : Dinv fr (d :: ds)) (h : deferredReady fr.length (d :: ds) = true) :
    remP snap o fr (d :: ds) = d.2 :: remP snap o fr ds ∧ Dinv fr ds := by
  obtain ⟨dd, de⟩ := d
  obtain ⟨h1, h2⟩ := hi
  simp only [deferredReady, decide_eq_true_eq] at h
  have hnr : deferredReady fr.length ds = false := by
    cases ds with
    | nil => rfl
    | cons d' ds' =>
      obtain ⟨dd', de'⟩ := d'
      simp only [deferredReady, decide_eq_false_iff_not]
      have := h2.1
      omega
  refine ⟨?_, DOk.mono (by omega) h2⟩
  rw [remP_not_ready snap o fr ds hnr]
  simp [remP, h]

theorem remP_pop_frame (snap : Snap) (o : Opts) (fb : List (List Entry)) (df : List (Nat × Entry))
    (hi : Dinv ([] :: fb) df) (h : deferredReady (fb.length + 1) df = false) :
    remP snap o ([] :: fb) df = remP snap o fb df ∧ Dinv fb df := by
  have h' : deferredReady ([] :: fb : List (List Entry)).length df = false := h
  rw [remP_not_ready snap o _ df h']
  cases df with
  | nil => exact ⟨by simp [remQ, remP], trivial⟩
  | cons d ds =>
    obtain ⟨dd, de⟩ := d
    simp only [deferredReady, decide_eq_false_iff_not] at h
    refine ⟨?_, ⟨by omega, hi.2⟩⟩
    by_cases hd : dd = fb.length
    · have : fb.length ≤ dd := by omega
      simp [remQ, remP, hd]
    · have : ¬ fb.length ≤ dd := by omega
      simp [remQ, remP, hd, this]

/-- `remQ` of a stack whose top frame starts with `x`, in terms of the rest -/
theorem remQ_cons_item (snap : Snap) (o : Opts) (x : Entry) (xs : List Entry) (fb : List (List Entry))
    (df : List (Nat × Entry)) :
    remQ snap o ((x :: xs) :: fb) df = W snap o x (fb.length + 1) ++ remQ snap o (xs :: fb) df := by
  cases df with
  | nil => simp [remQ, List.append_assoc]
  | cons d ds => obtain ⟨dd, de⟩ := d; simp [remQ, List.append_assoc]

theorem remP_step_dir {snap : Snap} (hwf : SnapWf snap) {o : Opts} (hcf : o.contentsFirst = true) {x : Entry}
    (hx : InSnap snap x) (hd : x.dir = true) (xs : List Entry) (fb : List (List Entry)) (df : List (Nat × Entry))
    (hi : Dinv ((x :: xs) :: fb) df) (h : deferredReady (fb.length + 1) df = false) :
    let fr' := (if descends o x (fb.length + 1) then [children snap o x] else []) ++ xs :: fb
    let df' := if selected o x (fb.length + 1) then (fb.length + 1, x) :: df else df
    remP snap o ((x :: xs) :: fb) df = remP snap o fr' df' ∧ Dinv fr' df' := by
  have h0 : deferredReady ((x :: xs) :: fb : List (List Entry)).length df = false := h
  have hlow : DOk (fb.length + 1) df := by
    cases df with
    | nil => trivial
    | cons d ds =>
      obtain ⟨dd, de⟩ := d
      simp only [deferredReady, decide_eq_false_iff_not] at h
      exact ⟨by omega, hi.2⟩
  rw [remP_not_ready snap o _ df h0, remQ_cons_item, W_cf_dir hwf hcf _ hx hd]
  have hrest : remQ snap o (xs :: fb) df = remP snap o (xs :: fb) df :=
    (remP_not_ready snap o (xs :: fb) df h).symm
  by_cases hsel : selected o x (fb.length + 1) = true
  · have hs : selfS o x (fb.length + 1) = [x] := by simp [selfS, hsel]
    by_cases hdesc : descends o x (fb.length + 1) = true
    · simp only [hsel, if_true, hdesc, List.singleton_append, hs]
      refine ⟨?_, ⟨by simp, hlow⟩⟩
      have hnr : deferredReady (children snap o x :: xs :: fb : List (List Entry)).length ((fb.length + 1, x) :: df) = false := by
        simp [deferredReady]
      rw [remP_not_ready snap o _ _ hnr]
      simp [remQ, List.append_assoc]
    · simp only [hsel, if_true, hdesc, Bool.false_eq_true, if_false, List.nil_append, hs]
      exact ⟨by simp [remP], ⟨by simp, hlow⟩⟩
  · have hs : selfS o x (fb.length + 1) = [] := by simp [selfS, hsel]
    by_cases hdesc : descends o x (fb.length + 1) = true
    · simp only [hsel, Bool.false_eq_true, if_false, hdesc, if_true, List.singleton_append, hs, List.append_nil]
      refine ⟨?_, DOk.mono (by simp) hi⟩
      have hnr : deferredReady (children snap o x :: xs :: fb : List (List Entry)).length df = false := by
        cases df with
        | nil => rfl
        | cons d ds =>
          obtain ⟨dd, de⟩ := d
          simp only [deferredReady, decide_eq_false_iff_not, List.length_cons]
          have := hlow.1
          omega
      rw [remP_not_ready snap o _ _ hnr]
      have hq : remQ snap o (children snap o x :: xs :: fb) df =
          (children snap o x).flatMap (fun c => W snap o c (fb.length + 1 + 1)) ++ remQ snap o (xs :: fb) df := by
        cases df with
        | nil => simp [remQ]
        | cons d ds =>
          obtain ⟨dd, de⟩ := d
          have : dd ≠ fb.length + 1 := by have := hlow.1; omega
          simp [remQ, this]
      rw [hq]
    · simp only [hsel, Bool.false_eq_true, if_false, hdesc, List.nil_append, hs, List.append_nil]
      exact ⟨hrest, hi⟩

theorem remP_step_file {snap : Snap} (hwf : SnapWf snap) {o : Opts} {x : Entry}
    (hx : InSnap snap x) (hd : x.dir = false) (xs : List Entry) (fb : List (List Entry)) (df : List (Nat × Entry))
    (hi : Dinv ((x :: xs) :: fb) df) (h : deferredReady (fb.length + 1) df = false) :
    remP snap o ((x :: xs) :: fb) df = selfS o x (fb.length + 1) ++ remP snap o (xs :: fb) df ∧
      Dinv (xs :: fb) df := by
  have h0 : deferredReady ((x :: xs) :: fb : List (List Entry)).length df = false := h
  have h1 : deferredReady (xs :: fb : List (List Entry)).length df = false := h
  rw [remP_not_ready snap o _ df h0, remP_not_ready snap o _ df h1, remQ_cons_item, W_cf_file hwf _ hx hd]
  exact ⟨rfl, hi⟩

/-- `process` with `contents_first` -/
theorem process_post {σ} {snap : Snap} (hwf : SnapWf snap) {o : Opts} (hfol : o.follow = false)
    (hcf : o.contentsFirst = true) (hk : KindOk o) (hord : OrdOk o) (st : ISt) (e : Entry) (w : σ) (he : InSnap snap e) :
    ∃ st1 : ISt, st1.started = st.started ∧ st1.deferred = st.deferred ∧
      frames st1 = (if descends o e st.iters.length then [children snap o e] else []) ++ frames st ∧
      process snap o noPre st e w =
        if selected o e st.iters.length then
          (if e.dir then (none, { st1 with deferred := (st.iters.length, e) :: st1.deferred }, w)
           else (some (.ok e), st1, w))
        else (none, st1, w) := by
  obtain ⟨st1, h1, h2, h3, h4⟩ := process_nf hwf hfol st e w he
  refine ⟨st1, h1, h2, by rw [h3, modelKids_eq hwf hord he], ?_⟩
  rw [h4]
  have hsel := selected_model hk e st.iters.length
  by_cases hs : selected o e st.iters.length = true
  · obtain ⟨ha, hb⟩ := hsel.mpr hs
    simp only [hs, if_true, ha, if_false, hb, hcf, and_true]
  · have := mt hsel.mp hs
    simp only [hs, Bool.false_eq_true, if_false]
    split
    · rfl
    · split
      · rfl
      · rename_i ha hb; exact absurd ⟨ha, hb⟩ this

theorem nextLoop_post {σ} {snap : Snap} (hwf : SnapWf snap) {o : Opts} (hfol : o.follow = false)
    (hcf : o.contentsFirst = true) (hk : KindOk o) (hord : OrdOk o) :
    ∀ (f : Nat) (st : ISt) (w : σ), FramesOk snap (frames st) → Dinv (frames st) st.deferred →
      workG snap o st < f →
      (remP snap o (frames st) st.deferred = [] ∧ ∃ st', nextLoop snap o noPre f st w = (none, st', w)) ∨
      (∃ e r st', remP snap o (frames st) st.deferred = e :: r ∧
        nextLoop snap o noPre f st w = (some (.ok e), st', w) ∧
        st'.started = st.started ∧ FramesOk snap (frames st') ∧ Dinv (frames st') st'.deferred ∧
        remP snap o (frames st') st'.deferred = r ∧ workG snap o st' < workG snap o st)
  | 0, _, _, _, _, h => by omega
  | f + 1, st, w, hok, hdi, hwork => by
    obtain ⟨started, openDesc, iters, deferred⟩ := st
    have hfl : (frames ⟨started, openDesc, iters, deferred⟩).length = iters.length := by simp [frames]
    simp only [] at hdi
    -- a deferred directory is released
    have hpop : ∀ d ds, deferred = d :: ds →
        deferredReady (frames ⟨started, openDesc, iters, deferred⟩).length deferred = true →
        nextLoop snap o noPre (f + 1) ⟨started, openDesc, iters, deferred⟩ w =
          (some (.ok d.2), ⟨started, openDesc, iters, ds⟩, w) →
        ∃ e r st', remP snap o (frames ⟨started, openDesc, iters, deferred⟩) deferred = e :: r ∧
          nextLoop snap o noPre (f + 1) ⟨started, openDesc, iters, deferred⟩ w = (some (.ok e), st', w) ∧
          st'.started = started ∧ FramesOk snap (frames st') ∧ Dinv (frames st') st'.deferred ∧
          remP snap o (frames st') st'.deferred = r ∧ workG snap o st' < workG snap o ⟨started, openDesc, iters, deferred⟩ := by
      intro d ds hd hex hn
      subst hd
      obtain ⟨hr, hi2⟩ := remP_pop_deferred snap o _ d ds hdi hex
      exact ⟨d.2, _, ⟨started, openDesc, iters, ds⟩, hr, hn, rfl, hok, hi2, rfl, by simp [workG, frames]⟩
    cases iters with
    | nil =>
      cases deferred with
      | nil =>
        left
        refine ⟨by simp [remP, frames, remQ], ⟨started, openDesc, [], []⟩, ?_⟩
        simp only [nextLoop]; split <;> rfl
      | cons d ds =>
        right
        exact hpop d ds rfl (by obtain ⟨dd, de⟩ := d; simp [frames, deferredReady])
          (by simp only [nextLoop, hcf, if_true])
    | cons top below =>
      by_cases hrdy : deferredReady (top :: below).length deferred = true
      · cases deferred with
        | nil => simp [deferredReady] at hrdy
        | cons d ds =>
          right
          exact hpop d ds rfl (by rw [hfl]; exact hrdy) (by simp only [nextLoop, hcf, hrdy, and_self, if_true])
      · have hnr : deferredReady (below.length + 1) deferred = false := by
          simpa using hrdy
        have hdef' : ¬ (o.contentsFirst = true ∧ deferredReady (top :: below).length deferred = true) :=
          fun h => hrdy h.2
        obtain ⟨tp, tc, items⟩ := top
        have hbl : (frames ⟨started, openDesc, below, deferred⟩).length = below.length := by simp [frames]
        cases items with
        | nil =>
          have hn : nextLoop snap o noPre (f + 1) ⟨started, openDesc, ⟨tp, tc, []⟩ :: below, deferred⟩ w =
              nextLoop snap o noPre f ⟨started, if tc then openDesc else openDesc - 1, below, deferred⟩ w := by
            simp only [nextLoop, hdef', if_false]
          have hw1 : workG snap o ⟨started, if tc then openDesc else openDesc - 1, below, deferred⟩ + 1 =
              workG snap o ⟨started, openDesc, ⟨tp, tc, []⟩ :: below, deferred⟩ := by
            simp [workG, frames, workF]; omega
          obtain ⟨hr, hi2⟩ := remP_pop_frame snap o (frames ⟨started, openDesc, below, deferred⟩) deferred hdi
            (by rw [hbl]; exact hnr)
          have ih := nextLoop_post hwf hfol hcf hk hord f
            ⟨started, if tc then openDesc else openDesc - 1, below, deferred⟩ w
            (fun its hi => hok its (List.mem_cons_of_mem _ hi)) hi2 (by omega)
          have hfr0 : frames ⟨started, openDesc, ⟨tp, tc, []⟩ :: below, deferred⟩ =
              [] :: frames ⟨started, openDesc, below, deferred⟩ := rfl
          rw [hn, hfr0, hr]
          rcases ih with ih | ⟨e, r, st', a1, a2, a3, a4, a5, a6, a7⟩
          · exact Or.inl ih
          · exact Or.inr ⟨e, r, st', a1, a2, a3, a4, a5, a6, by omega⟩
        | cons x xs =>
          have hx : InSnap snap x := hok (x :: xs) (by simp [frames]) x List.mem_cons_self
          obtain ⟨st1, b1, b2, b3, b4⟩ := process_post hwf hfol hcf hk hord
            ⟨started, openDesc, ⟨tp, tc, xs⟩ :: below, deferred⟩ x w hx
          have hfr : frames ⟨started, openDesc, ⟨tp, tc, x :: xs⟩ :: below, deferred⟩ =
              (x :: xs) :: frames ⟨started, openDesc, below, deferred⟩ := rfl
          have hfr1 : frames ⟨started, openDesc, ⟨tp, tc, xs⟩ :: below, deferred⟩ =
              xs :: frames ⟨started, openDesc, below, deferred⟩ := rfl
          have hlen : (⟨started, openDesc, ⟨tp, tc, xs⟩ :: below, deferred⟩ : ISt).iters.length =
              (frames ⟨started, openDesc, below, deferred⟩).length + 1 := by simp [frames]
          rw [hlen] at b4
          rw [hlen, hfr1] at b3
          simp only [] at b2
          have hwk := workF_step hwf (o := o) hx xs (frames ⟨started, openDesc, below, deferred⟩)
          rw [modelKids_eq hwf hord hx, ← b3] at hwk
          have hok1 : FramesOk snap (frames st1) := by
            rw [b3]
            intro its hi y hy
            rcases List.mem_append.mp hi with hi | hi
            · split at hi
              · rw [List.mem_singleton] at hi; subst hi
                exact (mem_children hwf hx hy).choose_spec.2.2.2
              · cases hi
            · rcases List.mem_cons.mp hi with h | hi
              · rw [h] at hy
                exact hok (x :: xs) (by simp [frames]) y (List.mem_cons_of_mem _ hy)
              · exact hok its (List.mem_cons_of_mem _ hi) y hy
          rw [hfr] at hdi
          have hnr' : deferredReady ((frames ⟨started, openDesc, below, deferred⟩).length + 1) deferred = false := by
            rw [hbl]; exact hnr
          cases hd : x.dir with
          | true =>
            obtain ⟨hr, hi2⟩ := remP_step_dir hwf hcf hx hd xs (frames ⟨started, openDesc, below, deferred⟩) deferred hdi hnr'
            rw [← b3] at hr hi2
            -- the state after `process`
            obtain ⟨st2, hst2, hfr2, hdf2, hs2⟩ : ∃ st2 : ISt,
                process snap o noPre ⟨started, openDesc, ⟨tp, tc, xs⟩ :: below, deferred⟩ x w = (none, st2, w) ∧
                frames st2 = frames st1 ∧
                st2.deferred = (if selected o x ((frames ⟨started, openDesc, below, deferred⟩).length + 1) then
                  ((frames ⟨started, openDesc, below, deferred⟩).length + 1, x) :: deferred else deferred) ∧
                st2.started = started := by
              rw [b4]
              simp only [hd, if_true]
              split
              · exact ⟨_, rfl, rfl, by simp [b2], b1⟩
              · exact ⟨st1, rfl, rfl, b2, b1⟩
            have hn : nextLoop snap o noPre (f + 1) ⟨started, openDesc, ⟨tp, tc, x :: xs⟩ :: below, deferred⟩ w =
                nextLoop snap o noPre f st2 w := by
              simp only [nextLoop, hdef', if_false, hfol, doFollow_false, hst2]
            have hw2 : workG snap o st2 + 1 ≤
                workG snap o ⟨started, openDesc, ⟨tp, tc, x :: xs⟩ :: below, deferred⟩ := by
              have hdl : st2.deferred.length ≤ deferred.length + 1 := by
                rw [hdf2]; split <;> simp
              simp only [workG, hfr, hfr2]
              omega
            rw [← hfr2, ← hdf2] at hr hi2
            have ih := nextLoop_post hwf hfol hcf hk hord f st2 w (hfr2 ▸ hok1) hi2 (by omega)
            rw [hn, hfr, hr]
            rcases ih with ih | ⟨e, r, st', a1, a2, a3, a4, a5, a6, a7⟩
            · exact Or.inl ih
            · exact Or.inr ⟨e, r, st', a1, a2, a3.trans hs2, a4, a5, a6, by omega⟩
          | false =>
            obtain ⟨hr, hi2⟩ := remP_step_file hwf hx hd xs (frames ⟨started, openDesc, below, deferred⟩) deferred hdi hnr'
            have hnd : descends o x ((frames ⟨started, openDesc, below, deferred⟩).length + 1) = false := by
              simp [descends, hd]
            rw [hnd] at b3
            simp only [Bool.false_eq_true, if_false, List.nil_append] at b3
            rw [← b3, ← b2] at hi2
            rw [← b3] at hr
            have hw1 : workG snap o st1 + 2 ≤
                workG snap o ⟨started, openDesc, ⟨tp, tc, x :: xs⟩ :: below, deferred⟩ := by
              simp only [workG, hfr, b2]
              omega
            simp only [hd, Bool.false_eq_true, if_false] at b4
            by_cases hy : selected o x ((frames ⟨started, openDesc, below, deferred⟩).length + 1) = true
            · have hn : nextLoop snap o noPre (f + 1) ⟨started, openDesc, ⟨tp, tc, x :: xs⟩ :: below, deferred⟩ w =
                  (some (.ok x), st1, w) := by
                simp only [nextLoop, hdef', if_false, hfol, doFollow_false, b4, if_pos hy]
              rw [selfS, if_pos hy, List.singleton_append] at hr
              exact Or.inr ⟨x, _, st1, by rw [hfr, hr, b2], hn, b1, hok1, hi2, rfl, by omega⟩
            · have hn : nextLoop snap o noPre (f + 1) ⟨started, openDesc, ⟨tp, tc, x :: xs⟩ :: below, deferred⟩ w =
                  nextLoop snap o noPre f st1 w := by
                simp only [nextLoop, hdef', if_false, hfol, doFollow_false, b4, if_neg hy]
              rw [selfS, if_neg hy, List.nil_append] at hr
              have ih := nextLoop_post hwf hfol hcf hk hord f st1 w hok1 hi2 (by omega)
              rw [b2] at ih
              rw [hn, hfr, hr]
              rcases ih with ih | ⟨e, r, st', a1, a2, a3, a4, a5, a6, a7⟩
              · exact Or.inl ih
              · exact Or.inr ⟨e, r, st', a1, a2, a3.trans b1, a4, a5, a6, by omega⟩

def remSP (snap : Snap) (o : Opts) (rootE : Entry) (st : ISt) : List Entry :=
  if st.started then remP snap o (frames st) st.deferred else W snap o rootE 0

def StOkP (snap : Snap) (st : ISt) : Prop :=
  FramesOk snap (frames st) ∧ (st.started = true → Dinv (frames st) st.deferred) ∧
    (st.started = false → st.iters = [] ∧ st.deferred = [])

theorem nextE_post {σ} {snap : Snap} (hwf : SnapWf snap) {o : Opts} (hfol : o.follow = false)
    (hcf : o.contentsFirst = true) (hk : KindOk o) (hord : OrdOk o) {rootE : Entry} (hr : InSnap snap rootE)
    (f : Nat) (st : ISt) (w : σ) (hok : StOkP snap st) (hwork : workGS snap o rootE st < f) :
    (remSP snap o rootE st = [] ∧ ∃ st', nextE snap o noPre rootE f st w = (none, st', w)) ∨
    (∃ e r st', remSP snap o rootE st = e :: r ∧ nextE snap o noPre rootE f st w = (some (.ok e), st', w) ∧
      StOkP snap st' ∧ remSP snap o rootE st' = r ∧ workGS snap o rootE st' < workGS snap o rootE st) := by
  cases hs : st.started with
  | true =>
    have h1 : nextE snap o noPre rootE f st w = nextLoop snap o noPre f st w := by simp [nextE, hs]
    have h2 : remSP snap o rootE st = remP snap o (frames st) st.deferred := by simp [remSP, hs]
    have h3 : workGS snap o rootE st = workG snap o st := by simp [workGS, hs]
    rw [h1, h2, h3]; rw [h3] at hwork
    rcases nextLoop_post hwf hfol hcf hk hord f st w hok.1 (hok.2.1 hs) hwork with h | ⟨e, r, st', a1, a2, a3, a4, a5, a6, a7⟩
    · exact Or.inl h
    · have hs' : st'.started = true := a3.trans hs
      exact Or.inr ⟨e, r, st', a1, a2, ⟨a4, fun _ => a5, by simp [hs']⟩, by simp [remSP, hs', a6], by simp [workGS, hs', a7]⟩
  | false =>
    obtain ⟨hit, hdf⟩ := hok.2.2 hs
    obtain ⟨st1, b1, b2, b3, b4⟩ := process_post hwf hfol hcf hk hord { st with started := true } rootE w hr
    have hlen : ({ st with started := true } : ISt).iters.length = 0 := by simp [hit]
    rw [hlen] at b3 b4
    simp only [hit, hdf, frames, List.map_nil, List.append_nil] at b2 b3
    have hs1 : st1.started = true := b1
    have h2 : remSP snap o rootE st = W snap o rootE 0 := by simp [remSP, hs]
    have h3 : workGS snap o rootE st = 3 * (W snap (oM o) rootE 0).length := by simp [workGS, hs]
    have hWA := WA_unfold hwf o 0 hr
    have hwk : workF snap o (frames st1) + 2 ≤ 3 * (W snap (oM o) rootE 0).length := by
      unfold frames; rw [b3, hWA, modelKids_eq hwf hord hr]; split <;> simp [workF] <;> omega
    have hok1 : FramesOk snap (frames st1) := by
      unfold frames; rw [b3]
      intro its hi y hy
      split at hi
      · rw [List.mem_singleton] at hi; subst hi
        exact (mem_children hwf hr hy).choose_spec.2.2.2
      · cases hi
    rw [h2, h3]; rw [h3] at hwork
    cases hd : rootE.dir with
    | true =>
      -- the state after `process`
      obtain ⟨st2, hst2, hfr2, hdf2, hs2⟩ : ∃ st2 : ISt,
          process snap o noPre { st with started := true } rootE w = (none, st2, w) ∧
          frames st2 = frames st1 ∧
          st2.deferred = (if selected o rootE 0 then [(0, rootE)] else []) ∧ st2.started = true := by
        rw [b4]
        simp only [hd, if_true]
        split
        · exact ⟨_, rfl, rfl, by simp [b2], b1⟩
        · exact ⟨st1, rfl, rfl, b2, b1⟩
      have hn : nextE snap o noPre rootE f st w = nextLoop snap o noPre f st2 w := by
        simp only [nextE, hs, hfol, doFollow_false, Bool.not_false, if_true, hst2]
      have hfr1 : frames st1 = if descends o rootE 0 then [children snap o rootE] else [] := by
        unfold frames; rw [b3]
      have hdi : Dinv (frames st2) st2.deferred := by
        rw [hfr2, hdf2]
        split
        · exact ⟨by omega, trivial⟩
        · trivial
      have hrem : remP snap o (frames st2) st2.deferred = W snap o rootE 0 := by
        rw [W_cf_dir hwf hcf 0 hr hd, hfr2, hdf2, hfr1]
        cases hsl : selected o rootE 0 <;> cases hds : descends o rootE 0 <;> simp [remP, remQ, selfS, hsl]
      have hw2 : workG snap o st2 + 1 ≤ 3 * (W snap (oM o) rootE 0).length := by
        have hdl : st2.deferred.length ≤ 1 := by rw [hdf2]; split <;> simp
        simp only [workG, hfr2]; omega
      rw [hn, ← hrem]
      rcases nextLoop_post hwf hfol hcf hk hord f st2 w (hfr2 ▸ hok1) hdi (by omega)
        with h | ⟨e, r, st', a1, a2, a3, a4, a5, a6, a7⟩
      · exact Or.inl h
      · have hs' : st'.started = true := a3.trans hs2
        refine Or.inr ⟨e, r, st', a1, a2, ⟨a4, fun _ => a5, by simp [hs']⟩, by simp [remSP, hs', a6], ?_⟩
        simp only [workGS, hs', if_true]; omega
    | false =>
      have hnd : descends o rootE 0 = false := by simp [descends, hd]
      rw [hnd] at b3
      simp only [Bool.false_eq_true, if_false] at b3
      have hfr : frames st1 = [] := by unfold frames; rw [b3]
      rw [W_cf_file hwf 0 hr hd]
      simp only [hd, Bool.false_eq_true, if_false] at b4
      have hdi1 : Dinv (frames st1) st1.deferred := by
        rw [hfr, b2]; trivial
      cases hy : selected o rootE 0 with
      | true =>
        have hn : nextE snap o noPre rootE f st w = (some (.ok rootE), st1, w) := by
          simp only [nextE, hs, hfol, doFollow_false, Bool.not_false, if_true, b4, hy]
        rw [hn]
        refine Or.inr ⟨rootE, [], st1, by simp [selfS, hy], rfl, ⟨hok1, fun _ => hdi1, by simp [hs1]⟩, ?_, ?_⟩
        · simp [remSP, hs1, hfr, b2, remP, remQ]
        · simp only [workGS, hs1, if_true, workG, b2, List.length_nil]; omega
      | false =>
        have hn : nextE snap o noPre rootE f st w = nextLoop snap o noPre f st1 w := by
          simp only [nextE, hs, hfol, doFollow_false, Bool.not_false, if_true, b4, hy, Bool.false_eq_true, if_false]
        left
        obtain ⟨f', rfl⟩ : ∃ f', f = f' + 1 := ⟨f - 1, by omega⟩
        have hit1 : st1.iters = [] := by simpa [frames] using hfr
        refine ⟨by simp [selfS, hy], st1, ?_⟩
        rw [hn]
        obtain ⟨s1, s2, s3, s4⟩ := st1
        simp only [] at hit1 b2
        subst hit1; subst b2
        simp only [nextLoop]; split <;> rfl

theorem runIter_post {snap : Snap} (hwf : SnapWf snap) {o : Opts} (hfol : o.follow = false)
    (hcf : o.contentsFirst = true) (hk : KindOk o) (hord : OrdOk o) {rootE : Entry} (hr : InSnap snap rootE) :
    ∀ (f : Nat) (st : ISt) (acc : List Entry), StOkP snap st → workGS snap o rootE st < f →
      runIter snap o noPre rootE (fun e (acc : List Entry) => (.ok (), e :: acc)) f st acc =
        (.ok (), (remSP snap o rootE st).reverse ++ acc)
  | 0, _, _, _, h => by omega
  | f + 1, st, acc, hok, hwork => by
    unfold runIter
    rcases nextE_post hwf hfol hcf hk hord hr (f + 1) st acc hok hwork with ⟨h1, st', h2⟩ | ⟨e, r, st', h1, h2, h3, h4, h5⟩
    · rw [h2, h1]; rfl
    · rw [h2, h1]
      simp only []
      rw [runIter_post hwf hfol hcf hk hord hr f st' (e :: acc) h3 (by omega), h4]
      simp

/-- `contents_first`, every depth window and (exclusive) kind filter: the machine yields the walk -/
theorem collectEntries_post {snap : Snap} (hwf : SnapWf snap) {o : Opts} (hfol : o.follow = false)
    (hcf : o.contentsFirst = true) (hk : KindOk o) (hord : OrdOk o) {rootE : Entry} (hr : InSnap snap rootE) :
    collectEntries snap o rootE = .ok (entriesSpec snap o rootE) := by
  unfold collectEntries
  have hw : workGS snap o rootE {} < travFuel snap := by
    have := W_length_le hwf (oM o) 0 hr
    have := travFuel_gt snap
    simp only [workGS]; simp; omega
  rw [runIter_post hwf hfol hcf hk hord hr (travFuel snap) {} []
    ⟨by simp [FramesOk, frames], by simp, fun _ => ⟨rfl, rfl⟩⟩ hw]
  simp [remSP, entriesSpec_eq_W hwf o hr]
/-! ### declarative membership -/

/-- with `contents_first`, contents come before their parents: no entry is a proper ancestor of a
    later one -/
theorem walk_contents_first {snap : Snap} (hwf : SnapWf snap) (o : Opts) (hcf : o.contentsFirst = true)
    (k : Nat) (e : Entry) (d : Nat) (he : InSnap snap e) :
    (walk snap o k e d).Pairwise (fun a b => ¬ (a.path <+: b.path ∧ a.path ≠ b.path)) := by
  apply walk_pairwise hwf o _ _ _ k e d he
  · intro x y n s _ _ _ hs
    rw [hcf]; simp only [if_true]
    rintro ⟨hp, _⟩
    have := hp.length_le; rw [hs] at this; simp at this; omega
  · intro x hx
    refine (children_pairwise_ne hwf o hx).imp ?_
    rintro c c' ⟨n, n', h1, h2, hne⟩ y y' _ _ ⟨t, ht⟩ ⟨t', ht'⟩ ⟨hp, _⟩
    rw [← ht, ← ht', h1, h2, List.append_assoc, List.append_assoc] at hp
    exact not_prefix_of_ne hne hp

theorem chain_nil (snap : Snap) (p : FsPath) : Chain snap p [] := by
  intro t1 n t2 h; simp at h

theorem chain_cons {snap : Snap} {p : FsPath} {n : Str} {t : List Str} :
    Chain snap p (n :: t) ↔
      (∃ pe, alLookup p snap = some pe ∧ pe.dir = true ∧ pe.link = false ∧ n ∈ pe.files.getD []) ∧
      Chain snap (p ++ [n]) t := by
  constructor
  · intro h
    refine ⟨by simpa using h [] n t rfl, ?_⟩
    intro t1 m t2 ht
    have := h (n :: t1) m t2 (by rw [ht]; rfl)
    simpa [List.append_assoc] using this
  · rintro ⟨h0, h1⟩ t1 m t2 ht
    cases t1 with
    | nil =>
      simp only [List.nil_append, List.cons.injEq] at ht
      obtain ⟨rfl, rfl⟩ := ht
      simpa using h0
    | cons a t1 =>
      simp only [List.cons_append, List.cons.injEq] at ht
      obtain ⟨rfl, rfl⟩ := ht
      have := h1 t1 m t2 rfl
      simpa [List.append_assoc] using this

theorem mem_children_of_lookup {snap : Snap} (hwf : SnapWf snap) (o : Opts) {e c : Entry} {n : Str}
    (he : InSnap snap e) (hn : n ∈ e.files.getD []) (hc : alLookup (e.path ++ [n]) snap = some c) :
    c ∈ children snap o e := by
  rw [children_eq hwf o he, mem_groupKinds]
  exact List.mem_filterMap.mpr ⟨n, hn, hc⟩

/-- declarative membership: what the walk from `e` at depth `d` contains -/
theorem mem_walk_iff {snap : Snap} (hwf : SnapWf snap) (o : Opts) :
    ∀ (k : Nat) (e : Entry) (d : Nat) (y : Entry), InSnap snap e → pot snap e.path < k →
      (y ∈ walk snap o k e d ↔
        InSnap snap y ∧ ∃ t, y.path = e.path ++ t ∧ (t = [] ∨ d + t.length ≤ o.maxDepth) ∧
          Chain snap e.path t ∧ selected o y (d + t.length) = true)
  | 0, _, _, _, _, h => by omega
  | k + 1, e, d, y, he, hk => by
    rw [mem_walk_succ]
    constructor
    · rintro (⟨hs, rfl⟩ | ⟨hd, c, hc, hy⟩)
      · exact ⟨he, [], by simp, Or.inl rfl, chain_nil _ _, by simpa using hs⟩
      · obtain ⟨n, hn, hl, hp, hin⟩ := mem_children hwf he hc
        have hpot := pot_child hl
        rw [← hp] at hpot
        obtain ⟨hiy, t, ht, hdep, hch, hsel⟩ := (mem_walk_iff hwf o k c (d + 1) y hin (by omega)).mp hy
        simp only [descends, Bool.and_eq_true, Bool.not_eq_true', decide_eq_true_eq] at hd
        refine ⟨hiy, n :: t, by rw [ht, hp]; simp, Or.inr ?_, ?_, ?_⟩
        · rcases hdep with rfl | h
          · simp; omega
          · simp; omega
        · rw [chain_cons]
          exact ⟨⟨e, he, hd.1.1, hd.1.2, hn⟩, by rw [← hp]; exact hch⟩
        · have : d + (n :: t).length = d + 1 + t.length := by simp; omega
          rw [this]; exact hsel
    · rintro ⟨hiy, t, ht, hdep, hch, hsel⟩
      cases t with
      | nil =>
        left
        have : y = e := inSnap_eq_of_path hiy he (by simpa using ht)
        subst this
        exact ⟨by simpa using hsel, rfl⟩
      | cons n t =>
        right
        obtain ⟨⟨pe, hpe, h1, h2, hn⟩, hch'⟩ := chain_cons.mp hch
        have : pe = e := by
          have := he; unfold InSnap at this; rw [this] at hpe; exact (Option.some.inj hpe).symm
        subst this
        have hdl : d + (t.length + 1) ≤ o.maxDepth := by
          rcases hdep with h | h
          · cases h
          · simpa using h
        have hdesc : descends o pe d = true := by
          simp only [descends, Bool.and_eq_true, Bool.not_eq_true', decide_eq_true_eq]
          exact ⟨⟨h1, h2⟩, by omega⟩
        obtain ⟨c, hc⟩ := Option.isSome_iff_exists.mp ((wf_lookup hwf he).2.2 n hn)
        have hcp := (wf_lookup hwf hc).1
        have hin := inSnap_of_lookup hwf hc
        have hpot := pot_child hc
        rw [← hcp] at hpot
        refine ⟨hdesc, c, mem_children_of_lookup hwf o he hn hc, ?_⟩
        rw [mem_walk_iff hwf o k c (d + 1) y hin (by omega)]
        refine ⟨hiy, t, by rw [ht, hcp]; simp, ?_, by rw [hcp]; exact hch', ?_⟩
        · by_cases h : t = []
          · exact Or.inl h
          · exact Or.inr (by omega)
        · have : d + 1 + t.length = d + (n :: t).length := by simp; omega
          rw [this]; exact hsel

/-- the two option domains in which the machine is exact -/
theorem collectEntries_exact {snap : Snap} (hwf : SnapWf snap) {o : Opts} (hdom : ExactDom o)
    {rootE : Entry} (hr : InSnap snap rootE) :
    collectEntries snap o rootE = .ok (entriesSpec snap o rootE) := by
  obtain ⟨hfol, hord, h | h⟩ := hdom
  · exact collectEntries_pre hwf hfol h.1 hord h.2 hr
  · exact collectEntries_post hwf hfol h.1 (by unfold KindOk; simp [h.2.2.1]) hord hr

/-! ## Part E: the listing helpers (paths, dirs, files, all_*) -/

/-- clause (2) of the C03 invariant: the parent of every key other than `/` is a real directory
    listing its name -/
theorem inv_parent {s : State} (hinv : Spec.Inv s) {k : FsPath} {e : Entry} (hk : (k, e) ∈ s.entries) (hne : k ≠ []) :
    ∃ pe, alLookup k.dropLast s.entries = some pe ∧ pe.dir = true ∧ pe.link = false ∧
      baseName k ∈ pe.files.getD [] := by
  unfold Spec.Inv invViolation at hinv
  simp only [] at hinv
  split at hinv
  · cases hinv
  · split at hinv
    · cases hinv
    · split at hinv
      · cases hinv
      · split at hinv
        · cases hinv
        · rename_i hfind
          have := List.find?_eq_none.mp hfind (k, e) hk
          simp only [hne, ne_eq, not_false_eq_true, decide_true, Bool.true_and, Bool.not_eq_true] at this
          split at this
          · rename_i pe hpe
            refine ⟨pe, hpe, ?_⟩
            simp only [Bool.not_eq_false', Bool.and_eq_true, Bool.not_eq_true'] at this
            obtain ⟨⟨h1, h2⟩, h3⟩ := this
            refine ⟨h1, h2, ?_⟩
            cases hf : pe.files with
            | none => rw [hf] at h3; cases h3
            | some fs => rw [hf] at h3; simpa using h3
          · cases this

theorem inv_prefix {s : State} (hinv : Spec.Inv s) (p : FsPath) :
    ∀ (n : Nat) (t : List Str) (e : Entry), t.length = n → alLookup (p ++ t) s.entries = some e →
      ∃ pe, alLookup p s.entries = some pe
  | 0, t, e, hl, h => by
    have : t = [] := List.eq_nil_of_length_eq_zero hl
    subst this; exact ⟨e, by simpa using h⟩
  | n + 1, t, e, hl, h => by
    have hne : t ≠ [] := by intro h0; subst h0; simp at hl
    have hk : p ++ t ≠ [] := by simp [hne]
    obtain ⟨pe, hpe, _⟩ := inv_parent hinv (alLookup_mem h) hk
    rw [List.dropLast_append_of_ne_nil hne] at hpe
    exact inv_prefix hinv p n t.dropLast pe (by simp [hl]) hpe

theorem chain_of_inv {s : State} (hinv : Spec.Inv s) {p : FsPath} {t : List Str} {e : Entry}
    (h : alLookup (p ++ t) s.entries = some e) : Chain s.entries p t := by
  intro t1 n t2 ht
  subst ht
  have h' : alLookup ((p ++ t1 ++ [n]) ++ t2) s.entries = some e := by simpa [List.append_assoc] using h
  obtain ⟨c, hc⟩ := inv_prefix hinv (p ++ t1 ++ [n]) t2.length t2 e rfl h'
  obtain ⟨pe, hpe, h1, h2, h3⟩ := inv_parent hinv (alLookup_mem hc) (by simp)
  refine ⟨pe, ?_, h1, h2, ?_⟩
  · simpa [List.dropLast_append_of_ne_nil] using hpe
  · simpa [baseName] using h3

theorem listing_eq {env : Env} {path : Str} {md : Option Nat} {dirs files : Bool} {s : State} {a : FsPath}
    {rootE : Entry} {snap : Snap} {es : List Entry}
    (habs : absM env path s = (.ok a, s)) (hdir : isDirP s a = true)
    (hent : entriesOf s a = .ok (rootE, snap))
    (hes : collectEntries snap (listingOpts md dirs files) rootE = .ok es) :
    listing env path md dirs files s =
      (.ok ((es.filter (fun e => !((dirs || files) && e.link))).map (·.path)), s) := by
  have hf : (if dirs = true ∨ files = true then es.filter (fun e => !e.link) else es) =
      es.filter (fun e => !((dirs || files) && e.link)) := by
    cases dirs <;> cases files <;> simp <;> exact (List.filter_eq_self.mpr (fun _ _ => rfl)).symm
  rw [← hf]
  unfold listing
  simp only [bind, M.bind, M.get, habs, hdir, Bool.not_true, Bool.false_eq_true, if_false, M.liftO, hent]
  erw [hes]
  rfl

theorem listingOpts_facts (md : Option Nat) (dirs files : Bool) :
    let o := listingOpts md dirs files
    o.follow = false ∧ o.sorted = true ∧ o.contentsFirst = false ∧ o.dirsFirst = false ∧ o.filesFirst = false ∧
      o.minDepth = 1 ∧ o.maxDepth = depthCap md ∧ o.files = files ∧ o.dirs = (dirs && !files) := by
  cases md <;> cases dirs <;> cases files <;> simp [listingOpts, Opts.setMin, Opts.setMax, depthCap]

/-- the snapshot agrees with the state on every key at or below `a` (decidable form) -/
theorem snapOf_lookup {s : State} {a : FsPath} {snap : Snap} (h : SnapOf s a snap) :
    ∀ k, a <+: k → alLookup k snap = alLookup k s.entries := by
  intro k hk
  cases h1 : alLookup k snap with
  | some e =>
    have := h.2 (k, e) (alLookup_mem h1) hk
    simp only [] at this
    rw [← this, h1]
  | none =>
    cases h2 : alLookup k s.entries with
    | none => rfl
    | some e => rw [← h.1 (k, e) (alLookup_mem h2) hk, h1] at h2; exact h2

/-- the entries the collecting loop keeps: `dirs` / `files` / `all_dirs` / `all_files` skip links -/
theorem listing_spec {env : Env} {path : Str} (md : Option Nat) (dirs files : Bool) {s : State} {a : FsPath}
    {rootE : Entry} {snap : Snap}
    (hinv : Spec.Inv s) (habs : absM env path s = (.ok a, s)) (hdir : isDirP s a = true)
    (hent : entriesOf s a = .ok (rootE, snap)) (hwf : SnapWf snap)
    (hsnap : SnapOf s a snap) :
    ∃ ps, listing env path md dirs files s = (.ok ps, s) ∧
      ps = ((entriesSpec snap (listingOpts md dirs files) rootE).filter
              (fun e => !((dirs || files) && e.link))).map (·.path) ∧
      ps.Pairwise (fun p q => TreeFs.pathLt p q = true) ∧ ps.Nodup ∧ a ∉ ps ∧
      ∀ p, p ∈ ps ↔ ∃ t e, p = a ++ t ∧ t ≠ [] ∧ t.length ≤ depthCap md ∧
        alLookup p s.entries = some e ∧ (files = true → e.file = true ∧ e.link = false) ∧
        (dirs = true → files = false → e.dir = true ∧ e.link = false) := by
  have hsub := snapOf_lookup hsnap
  obtain ⟨f1, f2, f3, f4, f5, f6, f7, f8, f9⟩ := listingOpts_facts md dirs files
  -- the root of the traversal
  have hroot0 : alLookup a s.entries = some rootE := by
    unfold entriesOf at hent
    split at hent
    · cases hent
    · rename_i e he
      split at hent <;> cases hent
      exact he
  have hroot1 : alLookup a snap = some rootE := by rw [hsub a (List.prefix_refl a)]; exact hroot0
  have hpa : rootE.path = a := (wf_lookup hwf hroot1).1
  have hroot : InSnap snap rootE := inSnap_of_lookup hwf hroot1
  have hk : KindOk (listingOpts md dirs files) := by
    unfold KindOk; rw [f8, f9]; cases dirs <;> cases files <;> simp
  have hex := collectEntries_pre hwf f1 f3 (Or.inl f2) hk hroot
  have hsubl : List.Sublist
      (((entriesSpec snap (listingOpts md dirs files) rootE).filter
          (fun e => !((dirs || files) && e.link))).map (·.path))
      ((entriesSpec snap (listingOpts md dirs files) rootE).map (·.path)) :=
    List.Sublist.map _ List.filter_sublist
  refine ⟨_, listing_eq habs hdir hent hex, rfl, ?_, ?_, ?_, ?_⟩
  · exact List.Pairwise.sublist hsubl (walk_lex hwf _ f3 f4 f5 _ rootE 0 hroot)
  · exact List.Nodup.sublist hsubl (walk_nodup hwf _ _ rootE 0 hroot)
  · intro hmem
    obtain ⟨y, hy, hya⟩ := List.mem_map.mp (hsubl.subset hmem)
    have hs := mem_walk_selected hwf _ _ rootE 0 y hroot hy
    simp only [hya, hpa, Nat.sub_self, Nat.add_zero, selected, f6] at hs
    simp at hs
  · intro p
    have hmem : ∀ y, y ∈ entriesSpec snap (listingOpts md dirs files) rootE ↔ _ :=
      fun y => mem_walk_iff hwf (listingOpts md dirs files) _ rootE 0 y hroot (Nat.lt_succ_of_le (pot_le _ _))
    simp only [List.mem_map, List.mem_filter]
    constructor
    · rintro ⟨y, ⟨hy, hkeep⟩, rfl⟩
      obtain ⟨hiy, t, ht, hdep, hch, hsel⟩ := (hmem y).mp hy
      simp only [Nat.zero_add, selected, f6, f7, f8, f9, Bool.and_eq_true, decide_eq_true_eq, Bool.or_eq_true,
        Bool.not_eq_true'] at hdep hsel
      rw [hpa] at ht
      have hne : t ≠ [] := by intro h; subst h; simp at hsel
      refine ⟨t, y, ht, hne, ?_, ?_, ?_, ?_⟩
      · rcases hdep with h | h
        · exact absurd h hne
        · exact h
      · rw [← hsub _ (by rw [ht]; exact List.prefix_append _ _)]; exact hiy
      · intro hf
        refine ⟨?_, by simpa [hf] using hkeep⟩
        rcases hsel.1.2 with h | h
        · rw [hf] at h; cases h
        · exact h
      · intro hd hf
        refine ⟨?_, by simpa [hd] using hkeep⟩
        rcases hsel.2 with h | h
        · rw [hd, hf] at h; cases h
        · exact h
    · rintro ⟨t, e, rfl, hne, hlen, hl, hff, hdd⟩
      have hl' : alLookup (a ++ t) snap = some e := by rw [hsub _ (List.prefix_append _ _)]; exact hl
      have hie := inSnap_of_lookup hwf hl'
      have hep := (wf_lookup hwf hl').1
      refine ⟨e, ⟨(hmem e).mpr ⟨hie, t, by rw [hep, hpa], Or.inr (by rw [f7]; simpa using hlen), ?_, ?_⟩, ?_⟩, hep⟩
      · intro t1 n t2 ht
        obtain ⟨pe, h1, h2⟩ := chain_of_inv hinv hl t1 n t2 ht
        rw [hpa]
        exact ⟨pe, by rw [hsub _ (List.prefix_append _ _)]; exact h1, h2⟩
      · simp only [Nat.zero_add, selected, f6, f8, f9, Bool.and_eq_true, decide_eq_true_eq, Bool.or_eq_true,
          Bool.not_eq_true']
        refine ⟨⟨?_, ?_⟩, ?_⟩
        · cases t with
          | nil => exact absurd rfl hne
          | cons _ _ => simp
        · cases hf : files
          · exact Or.inl rfl
          · exact Or.inr (hff hf).1
        · cases hd : dirs
          · left; simp
          · cases hf : files
            · exact Or.inr (hdd hd hf).1
            · left; simp
      · cases hf : files
        · cases hd : dirs
          · simp
          · simp [(hdd hd hf).2]
        · simp [(hff hf).2]
/-! ### packaged for the property file -/

/-- every option combination: no path twice, and only visited entries (snapshot entries below the
    root within `max_depth`) -/
theorem collectEntries_all {snap : Snap} (hwf : SnapWf snap) {o : Opts} (hfol : o.follow = false)
    {rootE : Entry} (hr : InSnap snap rootE) {es : List Entry} (h : collectEntries snap o rootE = .ok es) :
    (es.map (·.path)).Nodup ∧ ∀ y ∈ es, InSnap snap y ∧ rootE.path <+: y.path ∧
      (y = rootE ∨ y.path.length - rootE.path.length ≤ o.maxDepth) := by
  obtain ⟨es', h1, hsub⟩ := collectEntries_sub (o := o) hwf hfol hr
  rw [h] at h1
  have : es = es' := Outcome.ok.inj h1
  subst this
  refine ⟨hsub.nodup (walk_nodup hwf (oM o) _ rootE 0 hr), ?_⟩
  intro y hy
  have hy' := hsub.1 y hy
  have h3 := mem_walk_depth_le hwf (oM o) _ rootE 0 y hr hy'
  simp only [Nat.zero_add] at h3
  exact ⟨(mem_walk hwf (oM o) _ rootE 0 y hr hy').1, mem_walk_prefix hwf (oM o) hr hy', h3⟩

theorem es_eq_of_exact {snap : Snap} {o : Opts} {rootE : Entry} {es : List Entry}
    (hwf : SnapWf snap) (hroot : InSnap snap rootE) (hdom : ExactDom o)
    (h : collectEntries snap o rootE = .ok es) : es = entriesSpec snap o rootE := by
  rw [collectEntries_exact hwf hdom hroot] at h
  exact (Outcome.ok.inj h).symm

theorem spec_filter_respected {snap : Snap} (hwf : SnapWf snap) (o : Opts) {rootE : Entry}
    (hroot : InSnap snap rootE) :
    ∀ y ∈ entriesSpec snap o rootE, InSnap snap y ∧ rootE.path <+: y.path ∧
      (o.files = true → y.file = true) ∧ (o.dirs = true → y.dir = true) ∧
      o.minDepth ≤ y.path.length - rootE.path.length ∧
      (y = rootE ∨ y.path.length - rootE.path.length ≤ o.maxDepth) := by
  intro y hy
  have h1 := mem_walk hwf o _ rootE 0 y hroot hy
  have h2 := mem_walk_selected hwf o _ rootE 0 y hroot hy
  have h3 := mem_walk_depth_le hwf o _ rootE 0 y hroot hy
  have h4 := mem_walk_prefix hwf o hroot hy
  simp only [selected, Bool.and_eq_true, decide_eq_true_eq, Bool.or_eq_true, Bool.not_eq_true',
    Nat.zero_add] at h2 h3
  refine ⟨h1.1, h4, ?_, ?_, h2.1.1, h3⟩
  · intro hf; rcases h2.1.2 with h | h
    · rw [hf] at h; cases h
    · exact h
  · intro hd; rcases h2.2 with h | h
    · rw [hd] at h; cases h
    · exact h

/-- every listed path answers the matching query: `files` / `all_files` list only paths with
    `is_file`, `dirs` / `all_dirs` only paths with `is_dir` (no hypothesis about links any more) -/
theorem listing_agrees {env : Env} {path : Str} (md : Option Nat) (dirs files : Bool) {s : State} {a : FsPath}
    {rootE : Entry} {snap : Snap} {ps : List FsPath}
    (hinv : Spec.Inv s) (habs : absM env path s = (.ok a, s)) (hdir : isDirP s a = true)
    (hent : entriesOf s a = .ok (rootE, snap)) (hwf : SnapWf snap) (hsnap : SnapOf s a snap)
    (h : listing env path md dirs files s = (.ok ps, s)) :
    ∀ p ∈ ps, ∃ e, alLookup p s.entries = some e ∧
      (files = true → (e.file && !e.link) = true) ∧ (dirs = true → files = false → isDirP s p = true) := by
  obtain ⟨ps', h1, _, _, _, _, h6⟩ := listing_spec md dirs files hinv habs hdir hent hwf hsnap
  rw [h] at h1
  have : ps = ps' := by injection h1 with h1 _; injection h1
  subst this
  intro p hp
  obtain ⟨t, e, rfl, _, _, hl, hf, hd⟩ := (h6 p).mp hp
  refine ⟨e, hl, fun h => by simp [(hf h).1, (hf h).2], fun h h' => by simp [isDirP, hl, (hd h h').1, (hd h h').2]⟩

/-- the converse: every path strictly below `a` within the depth limit that answers the query is listed -/
theorem listing_complete {env : Env} {path : Str} (md : Option Nat) (dirs files : Bool) {s : State} {a : FsPath}
    {rootE : Entry} {snap : Snap} {ps : List FsPath}
    (hinv : Spec.Inv s) (habs : absM env path s = (.ok a, s)) (hdir : isDirP s a = true)
    (hent : entriesOf s a = .ok (rootE, snap)) (hwf : SnapWf snap) (hsnap : SnapOf s a snap)
    (h : listing env path md dirs files s = (.ok ps, s)) :
    ∀ t e, t ≠ [] → t.length ≤ depthCap md → alLookup (a ++ t) s.entries = some e →
      (files = true → (e.file && !e.link) = true) → (dirs = true → files = false → isDirP s (a ++ t) = true) →
      a ++ t ∈ ps := by
  obtain ⟨ps', h1, _, _, _, _, h6⟩ := listing_spec md dirs files hinv habs hdir hent hwf hsnap
  rw [h] at h1
  have : ps = ps' := by injection h1 with h1 _; injection h1
  subst this
  intro t e hne hlen hl hf hd
  refine (h6 _).mpr ⟨t, e, rfl, hne, hlen, hl, ?_, ?_⟩
  · intro hf'; simpa using hf hf'
  · intro hd' hf'
    have := hd hd' hf'
    simpa [isDirP, hl] using this

/-- both directions at once: the listed paths are exactly the paths strictly below `a` within the depth
    limit that exist and answer the matching query (`is_file`: `file && !link`, `is_dir`: `isDirP`) -/
theorem listing_agrees_iff {env : Env} {path : Str} (md : Option Nat) (dirs files : Bool) {s : State} {a : FsPath}
    {rootE : Entry} {snap : Snap} {ps : List FsPath}
    (hinv : Spec.Inv s) (habs : absM env path s = (.ok a, s)) (hdir : isDirP s a = true)
    (hent : entriesOf s a = .ok (rootE, snap)) (hwf : SnapWf snap) (hsnap : SnapOf s a snap)
    (h : listing env path md dirs files s = (.ok ps, s)) :
    ∀ p, p ∈ ps ↔ ∃ t e, p = a ++ t ∧ t ≠ [] ∧ t.length ≤ depthCap md ∧ alLookup p s.entries = some e ∧
      (files = true → (e.file && !e.link) = true) ∧ (dirs = true → files = false → isDirP s p = true) := by
  obtain ⟨ps', h1, _, _, _, _, h6⟩ := listing_spec md dirs files hinv habs hdir hent hwf hsnap
  rw [h] at h1
  have : ps = ps' := by injection h1 with h1 _; injection h1
  subst this
  intro p
  rw [h6]
  constructor
  · rintro ⟨t, e, rfl, hne, hlen, hl, hf, hd⟩
    exact ⟨t, e, rfl, hne, hlen, hl, fun h => by simp [(hf h).1, (hf h).2],
      fun h h' => by simp [isDirP, hl, (hd h h').1, (hd h h').2]⟩
  · rintro ⟨t, e, rfl, hne, hlen, hl, hf, hd⟩
    refine ⟨t, e, rfl, hne, hlen, hl, fun h => by simpa using hf h, fun h h' => ?_⟩
    have := hd h h'
    simpa [isDirP, hl] using this

end Rivia.Lemmas.Walk
