/-
  Rivia.Spec.Walk — what `entries()` has to yield (property C08), written from the property text
  as a plain recursive walk over a snapshot; it knows nothing about the iterator's stacks.

  A snapshot maps keys (component lists) to entries; a directory entry lists the names of its
  children, the child named `n` of the entry at `p` lives at `p ++ [n]`.

    walk e depth =
      the entry itself, when `min_depth ≤ depth` and the kind filter accepts it,
      and, when it is a real directory (not a link; links are not followed here) above `max_depth`,
      the walks of its children at `depth + 1`, children in the order the options prescribe;
      the entry comes before its contents, or after them with `contents_first`.

  Only `follow = false` is specified here.
-/
import Rivia.Model.Memfs

namespace Rivia.Spec
open Rivia Rivia.Memfs

/-- `sort_by_name`: byte-wise (= code point) lexicographic order on file names, i.e. the standard
    order on `List Char`; sorted with the standard library's stable merge sort.
    Without `sort_by_name` the order of siblings is not specified by the documentation (a `HashSet`
    iteration order); the spec then keeps the order in which the snapshot lists them. -/
def orderNames (o : Opts) (ns : List Str) : List Str :=
  if o.sorted then ns.mergeSort (fun a b => decide (a ≤ b)) else ns

/-- `dirs_first` / `files_first`: group by kind, keeping the (name) order inside each group.
    The builder never sets both. -/
def groupKinds (o : Opts) (es : List Entry) : List Entry :=
  if o.dirsFirst then es.filter (fun x => x.dir) ++ es.filter (fun x => !x.dir)
  else if o.filesFirst then es.filter (fun x => !x.dir) ++ es.filter (fun x => x.dir)
  else es

/-- the children of `e` present in the snapshot, in the order the options prescribe -/
def children (snap : Snap) (o : Opts) (e : Entry) : List Entry :=
  groupKinds o ((orderNames o (e.files.getD [])).filterMap (fun n => alLookup (e.path ++ [n]) snap))

/-- depth window and kind filter (`dirs()` / `files()`; the builder never sets both) -/
def selected (o : Opts) (e : Entry) (depth : Nat) : Bool :=
  decide (o.minDepth ≤ depth) && (!o.files || e.file) && (!o.dirs || e.dir)

/-- only real directories above the depth limit are entered (links are not followed) -/
def descends (o : Opts) (e : Entry) (depth : Nat) : Bool :=
  e.dir && !e.link && decide (depth < o.maxDepth)

/-- the recursive walk; `fuel` bounds the recursion depth (child keys strictly extend the parent
    key, so the number of snapshot entries is always enough: `Lemmas.walk_fuel_irrel`) -/
def walk (snap : Snap) (o : Opts) : Nat → Entry → Nat → List Entry
  | 0, _, _ => []
  | fuel + 1, e, depth =>
    let self := if selected o e depth then [e] else []
    let below := if descends o e depth
      then (children snap o e).flatMap (fun c => walk snap o fuel c (depth + 1)) else []
    if o.contentsFirst && e.dir then below ++ self else self ++ below

/-- what iterating `entries(root)` with options `o` over the snapshot must yield -/
def entriesSpec (snap : Snap) (o : Opts) (rootE : Entry) : List Entry :=
  walk snap o (snap.length + 1) rootE 0

/-- Well-formedness of a snapshot (decidable): every entry reports the key it is stored under,
    its child names are strictly sorted (hence distinct; `insertName` keeps them so) and every
    listed child is a key of the snapshot.
    (Distinct keys and `files.isSome ↔ dir` also hold of real snapshots but are not needed.) -/
def SnapWf (snap : Snap) : Prop :=
  ∀ kv ∈ snap, kv.2.path = kv.1 ∧
    (kv.2.files.getD []).Pairwise (fun a b => strLt a b = true) ∧
    ∀ n ∈ kv.2.files.getD [], (alLookup (kv.1 ++ [n]) snap).isSome = true

instance (snap : Snap) : Decidable (SnapWf snap) := by unfold SnapWf; infer_instance

/-- the entry is stored in the snapshot under its own path (what `entriesOf` provides for the
    root of a traversal) -/
def InSnap (snap : Snap) (e : Entry) : Prop := alLookup e.path snap = some e

instance (snap : Snap) (e : Entry) : Decidable (InSnap snap e) := by unfold InSnap; infer_instance

/-- option domain: `dirs()` and `files()` are exclusive (each builder call clears the other flag;
    with both flags the implementation only looks at `files`) -/
def KindOk (o : Opts) : Prop := ¬ (o.dirs = true ∧ o.files = true)

instance (o : Opts) : Decidable (KindOk o) := by unfold KindOk; infer_instance

/-- option domain: `dirs_first` / `files_first` only together with `sort_by_name` (the builder
    sets them so; without a sort the implementation ignores the grouping flags) -/
def OrdOk (o : Opts) : Prop := o.sorted = true ∨ (o.dirsFirst = false ∧ o.filesFirst = false)

instance (o : Opts) : Decidable (OrdOk o) := by unfold OrdOk; infer_instance

/-- the order two siblings are to come in: with `dirs_first` (`files_first`) no file before a
    directory (no directory before a file); by name inside a group, or throughout without grouping -/
def sibOrd (o : Opts) (a b : Entry) : Prop :=
  (o.dirsFirst = true → (a.dir = true ∨ b.dir = false)) ∧
  (o.dirsFirst = false → o.filesFirst = true → (a.dir = false ∨ b.dir = true)) ∧
  (((o.dirsFirst = false ∧ o.filesFirst = false) ∨ a.dir = b.dir) →
    ∃ p n n', a.path = p ++ [n] ∧ b.path = p ++ [n'] ∧ strLt n n' = true)

/-- the chain of real directories from `p` down the components `t`, each listing the next name:
    what makes the key `p ++ t` reachable from `p` without following links -/
def Chain (snap : Snap) (p : FsPath) (t : List Str) : Prop :=
  ∀ t1 n t2, t = t1 ++ n :: t2 →
    ∃ pe, alLookup (p ++ t1) snap = some pe ∧ pe.dir = true ∧ pe.link = false ∧ n ∈ pe.files.getD []

/-- the option combinations for which the implementation is exact (decidable): links not
    followed, grouping only with a sort, and either parents first with exclusive kind filters, or
    `contents_first` without kind filter and without lower depth bound -/
def ExactDom (o : Opts) : Prop :=
  o.follow = false ∧ OrdOk o ∧
    ((o.contentsFirst = false ∧ KindOk o) ∨
     (o.contentsFirst = true ∧ o.minDepth = 0 ∧ o.files = false ∧ o.dirs = false))

instance (o : Opts) : Decidable (ExactDom o) := by unfold ExactDom; infer_instance

/-- the options the listing helpers (`paths`, `dirs`, `files`, `all_*`) run the traversal with -/
def listingOpts (maxDepth : Option Nat) (dirs files : Bool) : Opts :=
  let o : Opts := {}
  let o := o.setMin 1
  let o := match maxDepth with | some d => o.setMax d | none => o
  { o with sorted := true, dirs := dirs ∧ !files, files := files }

/-- the depth limit of the listing helpers: `Some(1)` for paths/dirs/files, `u64::MAX` for `all_*` -/
def depthCap : Option Nat → Nat
  | some d => if d < 1 then 1 else d
  | none => 2 ^ 64 - 1

/-- the snapshot agrees with the state on every key at or below `a` (decidable): what
    `_clone_entries(a)` is meant to produce -/
def SnapOf (s : State) (a : FsPath) (snap : Snap) : Prop :=
  (∀ kv ∈ s.entries, a <+: kv.1 → alLookup kv.1 snap = alLookup kv.1 s.entries) ∧
  (∀ kv ∈ snap, a <+: kv.1 → alLookup kv.1 snap = alLookup kv.1 s.entries)

instance (s : State) (a : FsPath) (snap : Snap) : Decidable (SnapOf s a snap) := by
  unfold SnapOf; infer_instance

end Rivia.Spec
