/-
  Rivia.Spec.Expand — what C17 demands of `expand`, written from the property text:

    "a leading '~' or '~/' is replaced by $HOME, each $NAME or ${NAME} inside a component is
     replaced by that variable's value, and text containing neither '~' nor '$' is returned
     unchanged.  Expansion fails rather than guessing for more than one '~', a '~' that is not
     at the start, an empty variable name, or a variable that is not set."

  The specification is a small grammar for one path component (`parseComp`), a substitution
  (`substComp`) and the assembly (`expandSpec`).  It does not scan with an accumulator as the
  code does: a component is first tokenised as a whole, only a well-formed token list is
  substituted.

  Grammar of a component (a piece between separators; it never contains '/'):

      comp  ::= item*
      item  ::= LIT            a maximal non-empty run of characters other than '$'
              | '$' NAME       NAME = maximal non-empty run of characters not in { '$' '{' '}' }
              | '$' '{' NAME '}'

  Everything else is malformed (`parseComp = none`): a '$' followed by the end of the component,
  by another '$', by '}', by "{}" , or by "{NAME" without the closing brace.

  Decision for `$V}`: in THIS grammar it is `$V` followed by the literal text "}" (and `$V{x` is
  `$V` followed by the literal "{x").  The property text does not say whether a brace that
  directly touches a variable reference, other than in the exact form `${NAME}`, is literal text
  or part of the reference.  Such components are therefore declared *unspecified* by the predicate
  `Ambiguous`; no theorem or check of C17 demands anything of them.
-/
import Rivia.Model.Path

namespace Rivia.Spec
open Rivia Rivia.Str

/-- tokens of one component -/
inductive Tok where
  | lit (s : Str)
  | var (name : Str)
  deriving DecidableEq, Repr

/-- a character that may occur in a variable name -/
def isNameChar (c : Char) : Bool := c ≠ '$' && c ≠ '{' && c ≠ '}'

/-- Tokeniser with fuel (every step consumes at least one character; `parseComp` gives it
    `length + 1`).  `none` = the component is malformed. -/
def parseFuel : Nat → Str → Option (List Tok)
  | 0, _ => none
  | _ + 1, [] => some []
  | f + 1, c :: r =>
    if c = '$' then
      if r.head? = some '{' then
        -- `${NAME}`: a non-empty name and the closing brace are both required
        let name := r.tail.takeWhile isNameChar
        let after := r.tail.dropWhile isNameChar
        if name ≠ [] ∧ after.head? = some '}' then
          (parseFuel f after.tail).map (Tok.var name :: ·)
        else none
      else
        -- `$NAME`: a non-empty name is required
        let name := r.takeWhile isNameChar
        if name ≠ [] then (parseFuel f (r.dropWhile isNameChar)).map (Tok.var name :: ·)
        else none
    else
      (parseFuel f ((c :: r).dropWhile (· ≠ '$'))).map (Tok.lit ((c :: r).takeWhile (· ≠ '$')) :: ·)

/-- the tokens of a well-formed component, `none` for a malformed one -/
def parseComp (s : Str) : Option (List Tok) := parseFuel (s.length + 1) s

/-- `r` is the text directly after some '$'.  The reference is *ambiguous* when a brace touches
    it in any way other than the exact form `${NAME}`:
    * `${` not followed by `NAME}` with a non-empty NAME (`${V`, `${V{..`, `${V$..`, `${{..`, `${}`, `${`),
    * `$NAME` (or a bare `$`) directly followed by `{` or `}` (`$V}`, `$V{..`, `$}`). -/
def ambAt (r : Str) : Bool :=
  if r.head? = some '{' then
    !(r.tail.takeWhile isNameChar ≠ [] && (r.tail.dropWhile isNameChar).head? = some '}')
  else
    (r.dropWhile isNameChar).head? = some '{' || (r.dropWhile isNameChar).head? = some '}'

/-- a component with an ambiguous reference somewhere: unspecified by the property text -/
def Ambiguous : Str → Bool
  | [] => false
  | c :: r => (c = '$' && ambAt r) || Ambiguous r

/-- concatenate literals and variable values; `Var` error for an unset variable -/
def substComp (env : Env) : List Tok → Outcome Str
  | [] => .ok []
  | .lit s :: ts => (substComp env ts).map (s ++ ·)
  | .var n :: ts =>
    match env n with
    | none => .err .var
    | some v => (substComp env ts).map (v ++ ·)

/-- `$HOME`, error `Var` when unset -/
def homeSpec (env : Env) : Outcome Str :=
  match env "HOME".toList with
  | some h => .ok h
  | none => .err .var

/-- Stage 1, the tilde: more than one → `MultipleHomeSymbols`; exactly one that is not the first
    character, or is followed by something other than '/' or the end → `InvalidExpansion`;
    otherwise it is replaced by `$HOME` (the rest, if any, joined below it with `mash`). -/
def tildeSpec (env : Env) (s : Str) : Outcome Str :=
  if 2 ≤ s.count '~' then .err .multipleHomeSymbols
  else if s.count '~' = 0 then .ok s
  else match s with
    | ['~'] => homeSpec env
    | '~' :: '/' :: rest => (homeSpec env).bind fun h => .ok (mash h rest)
    | _ => .err .invalidExpansion

/-- expansion of one path component: only normal components carry variable references -/
def expandCompSpec (env : Env) : Comp → Outcome Str
  | .normal y =>
    match parseComp y with
    | none => .err .invalidExpansion
    | some toks => substComp env toks
  | c => .ok c.str

/-- all components in order (the first failing one decides the error) -/
def substAll (env : Env) : List Comp → Outcome (List Str)
  | [] => .ok []
  | c :: cs => (expandCompSpec env c).bind fun x => (substAll env cs).map (x :: ·)

/-- re-assemble a path from pieces the way `PathBuf` does: successive `push` -/
def pushAll (xs : List Str) : Str := xs.foldl push []

/-- The specification of `expand`. -/
def expandSpec (env : Env) (s : Str) : Outcome Str :=
  (tildeSpec env s).bind fun p =>
    if '$' ∈ p then (substAll env (components p)).map pushAll else .ok p

/-! ### domain predicates (decidable) -/

/-- the component is well-formed and not in the unspecified class -/
def compOK : Comp → Bool
  | .normal y => (parseComp y).isSome && !Ambiguous y
  | _ => true

/-- Domain `D` of `C17_vars_partial`: every normal component of the tilde-expanded path parses and
    is not `Ambiguous` (vacuously true when the tilde stage already fails). -/
def D (env : Env) (s : Str) : Bool :=
  match tildeSpec env s with
  | .ok p => (components p).all compOK
  | _ => true

/-- the component is malformed only because its last character is a '$' with nothing after it
    (the recorded finding: the code drops that '$' instead of failing) -/
def TrailingDollar (y : Str) : Bool :=
  (parseComp y).isNone && y.getLast? = some '$' && (parseComp y.dropLast).isSome

/-- a malformed normal component -/
def compBad (c : Comp) : Bool :=
  match c with
  | .normal y => (parseComp y).isNone
  | _ => false

/-- a well-formed component that references an unset variable -/
def compUnset (env : Env) (c : Comp) : Bool :=
  match c with
  | .normal y =>
    match parseComp y with
    | some toks => toks.any fun t => match t with | .var n => (env n).isNone | _ => false
    | none => false
  | _ => false

/-- wider domain for the error characterisation: no normal component is `Ambiguous` or in the
    trailing-'$' finding class (malformed components are allowed) -/
def compSpecified : Comp → Bool
  | .normal y => !Ambiguous y && !TrailingDollar y
  | _ => true

def DErr (env : Env) (s : Str) : Bool :=
  match tildeSpec env s with
  | .ok p => (components p).all compSpecified
  | _ => true

/-! ### the documented reasons for failure, as predicates on `s` and `env` -/

/-- more than one '~' -/
def MultipleTilde (s : Str) : Prop := 2 ≤ s.count '~'

/-- exactly one '~', not at the start or not followed by '/' or the end -/
def MisplacedTilde (s : Str) : Prop := s.count '~' = 1 ∧ ¬ (s = ['~'] ∨ ['~', '/'] <+: s)

/-- a (well placed) tilde needs `$HOME`, which is unset -/
def HomeUnset (env : Env) (s : Str) : Prop :=
  s.count '~' = 1 ∧ (s = ['~'] ∨ ['~', '/'] <+: s) ∧ env "HOME".toList = none

/-- some component of the tilde-expanded path has a '$' without a (well-formed) variable name -/
def EmptyVarName (env : Env) (s : Str) : Prop :=
  ∃ p, tildeSpec env s = .ok p ∧ '$' ∈ p ∧ ∃ c ∈ components p, compBad c = true

/-- some component of the tilde-expanded path references a variable that is not set -/
def UnsetVar (env : Env) (s : Str) : Prop :=
  ∃ p, tildeSpec env s = .ok p ∧ '$' ∈ p ∧ ∃ c ∈ components p, compUnset env c = true

end Rivia.Spec
