/-
  Rivia.Spec.ChmodGrammar — the documented comma-repeatable grammar
      clause  := [dfa]+ ':' [ugoa]+ [-+=] [rwx]+
      expr    := clause (',' clause)*
  and its meaning on a 12-bit-or-wider mode value, written from the documentation of `Chmod::sym`.
-/
import Rivia.Model.Chmod

namespace Rivia.Spec
open Rivia Rivia.Chmod

structure Clause where
  targets : List Char      -- non-empty, each of d f a
  who : List Char          -- non-empty, each of u g o a
  op : Char                -- one of - + =
  perms : List Char        -- non-empty, each of r w x
  deriving Repr, DecidableEq

def whoBits (w : List Char) : Nat :=
  w.foldl (fun acc c => acc ||| (if c = 'u' then 0o700 else if c = 'g' then 0o070 else if c = 'o' then 0o007 else 0o777)) 0

def permBits (p : List Char) : Nat :=
  p.foldl (fun acc c => acc ||| (if c = 'r' then 0o444 else if c = 'w' then 0o222 else 0o111)) 0

def isTargetCh (c : Char) : Bool := c = 'd' || c = 'f' || c = 'a'
def isWhoCh (c : Char) : Bool := c = 'u' || c = 'g' || c = 'o' || c = 'a'
def isOpCh (c : Char) : Bool := c = '-' || c = '+' || c = '='
def isPermCh (c : Char) : Bool := c = 'r' || c = 'w' || c = 'x'

/-- parse one clause from the text between commas -/
def parseClause (s : List Char) : Option Clause :=
  let t := s.takeWhile isTargetCh
  match s.dropWhile isTargetCh with
  | ':' :: r1 =>
    let w := r1.takeWhile isWhoCh
    match r1.dropWhile isWhoCh with
    | o :: r2 =>
      if t ≠ [] ∧ w ≠ [] ∧ isOpCh o ∧ r2 ≠ [] ∧ r2.all isPermCh then some ⟨t, w, o, r2⟩ else none
    | [] => none
  | _ => none

def splitComma : List Char → List (List Char)
  | [] => [[]]
  | c :: cs =>
    if c = ',' then [] :: splitComma cs
    else match splitComma cs with
      | [] => [[c]]
      | h :: t => (c :: h) :: t

def parseExpr (s : List Char) : Option (List Clause) := (splitComma s).mapM parseClause

/-- a clause applies to an entry iff the entry is not a symlink and every target letter admits
    its kind (`a` = any, `d` = directories, `f` = files) -/
def Clause.appliesTo (c : Clause) (k : EKind) : Bool :=
  !k.link && c.targets.all (fun t => t = 'a' || (t = 'd' && k.dir) || (t = 'f' && k.file))

def Clause.apply (c : Clause) (mode : Nat) : Nat :=
  let g := whoBits c.who
  let p := permBits c.perms
  if c.op = '-' then mode &&& not32 (g &&& p)
  else if c.op = '+' then mode ||| (g &&& p)
  else (not32 g &&& mode) ||| (g &&& p)

/-- meaning of a parsed expression: every applicable clause is applied, in order -/
def applyExpr (k : EKind) (cs : List Clause) (mode : Nat) : Nat :=
  cs.foldl (fun m c => if c.appliesTo k then c.apply m else m) mode

/-- the specification of symbolic chmod on one entry: error when the expression is malformed,
    else the new mode -/
def symSpec (k : EKind) (cur : Nat) (sym : List Char) : Option Nat :=
  (parseExpr sym).map (fun cs => applyExpr k cs cur)

end Rivia.Spec
