/-
  Rivia.Spec.MemfsJudge — ties the Memfs model to the reference tree filesystem:
  * `absS`    : the abstraction (forget child sets, `path` fields, merge the data map into nodes)
  * `specStep`: what the reference filesystem does for an `Op` (resolution of path arguments by
                the same `abs`), `none` where the reference does not pin the behaviour down
  * `classOf` : the known-finding class of a (pre-state, op) pair — the decidable complement of
                the domain `D` of the refinement theorem
  * `Inv`     : the tree well-formedness invariant of C03 (decidable, evaluated by the driver on
                every state the implementation reaches)
-/
import Rivia.Spec.TreeFs

namespace Rivia.Spec
open Rivia Rivia.Memfs Rivia.File Rivia.Spec.TreeFs

def kindOf (e : Entry) : Kind := if e.link then .link e.dir else if e.dir then .dir else .file

def absNode (s : State) (k : FsPath) (e : Entry) : Node :=
  { kind := kindOf e, perm := e.mode - typeBits (kindOf e), uid := e.uid, gid := e.gid,
    target := if e.link then e.alt else none,
    data := if e.link then [] else (alLookup k s.files).getD [] }

def absS (s : State) : T := { nodes := s.entries.map (fun kv => (kv.1, absNode s kv.1 kv.2)), cwd := s.cwd }

/-- resolve a user path against the spec state's cwd -/
def resolve (env : Env) (t : T) (p : Str) : Outcome FsPath :=
  match absWith env (renderP t.cwd) p with
  | .ok a => .ok (toPath a)
  | .err k => .err k
  | .panic => .panic
  | .hang => .hang

abbrev SR := R Val × T

def liftR {α} (f : α → Val) : R α × T → SR
  | (.ok a, t) => (.ok (f a), t)
  | (.err k, t) => (.err k, t)
  | (.unspecified, t) => (.unspecified, t)

/-- resolve then continue; resolution errors are reported with their kind -/
def withPath (env : Env) (t : T) (p : Str) (k : FsPath → SR) : SR :=
  match resolve env t p with
  | .ok a => k a
  | .err e => (.err (some e), t)
  | _ => (.unspecified, t)

def boolQ (env : Env) (t : T) (p : Str) (f : FsPath → Bool) : SR :=
  match resolve env t p with
  | .ok a => (.ok (.bool (f a)), t)
  | .err _ => (.ok (.bool false), t)
  | _ => (.unspecified, t)

def nodeQ (env : Env) (t : T) (p : Str) (f : Node → Val) : SR :=
  withPath env t p fun a => match get t a with
    | some n => (.ok (f n), t)
    | none => (.err (some .doesNotExist), t)

/-- listings report IsNotDir for anything that is not a directory, unresolvable paths included -/
def listQ (env : Env) (t : T) (p : Str) (all : Bool) (want : Node → Bool) : SR :=
  match resolve env t p with
  | .ok a => liftR .paths (listing t a all want, t)
  | .err _ => (.err (some .isNotDir), t)
  | _ => (.unspecified, t)

/-- lines of a text: split at '\n', a trailing newline does not start a new line, one '\r' before
    a '\n' is dropped -/
def specLines (s : Str) : List Str :=
  let ps := Str.splitOn '\n' s
  let stripCr (l : Str) : Str := if l.getLast? = some '\r' then l.dropLast else l
  match ps.reverse with
  | [] => []
  | lastp :: initRev => (initRev.reverse.map stripCr) ++ (if lastp = [] then [] else [lastp])

def permOk (m : Nat) : Bool := m < 0o10000

/-- the reference behaviour; `none` = this op is not covered by the reference (only the
    correspondence applies) -/
def specStep (env : Env) (t : T) : Op → Option SR
  | .mkfile p => some (withPath env t p fun a => liftR .path (mkfile t a))
  | .mkdirP p => some (withPath env t p fun a => liftR .path (mkdir t a 0o755))
  | .mkdirM p m => if permOk m ∧ m ≠ 0 then some (withPath env t p fun a => liftR .path (mkdir t a m)) else none
  | .writeAll p d => some (withPath env t p fun a => liftR (fun _ => .unit) (writeAll t a d false))
  | .appendAll p d => some (withPath env t p fun a => liftR (fun _ => .unit) (writeAll t a d true))
  | .readAll p => some (withPath env t p fun a =>
      match get t a with
      | none => (.err (some .doesNotExist), t)
      | some n => if n.kind = .file then
          (match decodeUtf8 n.data with | some s => (.ok (.str s), t) | none => (.err none, t))
        else if n.kind = .dir then (.err (some .isNotFile), t) else (.err none, t))
  | .read p => some (withPath env t p fun a =>
      match get t a with
      | none => (.err (some .doesNotExist), t)
      | some n => if n.kind = .file then (.ok (.bytes n.data), t)
        else if n.kind = .dir then (.err (some .isNotFile), t) else (.err none, t))
  | .remove p => some (withPath env t p fun a => liftR (fun _ => .unit) (remove t a))
  | .removeAll p => some (withPath env t p fun a => liftR (fun _ => .unit) (removeAll t a))
  | .symlink l tg => some (withPath env t l fun la =>
      if la = [] ∨ (get t la).isSome then (.err none, t) else
      let tstr := if isAbsolute tg then tg else mash (renderP la.dropLast) tg
      withPath env t tstr fun ta => liftR .path (symlink t la ta))
  | .readlinkAbs p => some (withPath env t p fun a =>
      match get t a with
      | some n => (match n.kind, n.target with
        | .link _, some tg => (.ok (.path tg), t)
        | _, _ => (.err none, t))
      | none => (.err none, t))
  | .readlink p => some (withPath env t p fun a =>
      match get t a with
      | some n => (match n.kind, n.target with
        | .link _, some tg => (.ok (.str (relative (renderP tg) (renderP a.dropLast))), t)
        | _, _ => (.err none, t))
      | none => (.err none, t))
  | .setCwd p => some (withPath env t p fun a => liftR .path (setCwd t a))
  | .cwd => some (.ok (.path t.cwd), t)
  | .root => some (.ok (.path []), t)
  | .abs p => some (withPath env t p fun a => (.ok (.path a), t))
  | .exists p => some (boolQ env t p fun a => (get t a).isSome)
  | .isDir p => some (boolQ env t p (isDir t))
  | .isFile p => some (boolQ env t p (isFile t))
  | .isSymlink p => some (boolQ env t p (isLink t))
  | .isSymlinkDir p => some (boolQ env t p fun a => match get t a with | some n => n.kind = .link true | none => false)
  | .isSymlinkFile p => some (boolQ env t p fun a => match get t a with | some n => n.kind = .link false | none => false)
  | .isExec p => some (boolQ env t p fun a => match get t a with | some n => n.mode &&& 0o111 != 0 | none => false)
  | .isReadonly p => some (boolQ env t p fun a => match get t a with | some n => n.mode &&& 0o222 == 0 | none => false)
  | .mode p => some (nodeQ env t p fun n => .nat n.mode)
  | .uid p => some (nodeQ env t p fun n => .nat n.uid)
  | .gid p => some (nodeQ env t p fun n => .nat n.gid)
  | .owner p => some (nodeQ env t p fun n => .pair n.uid n.gid)
  | .paths p => some (listQ env t p false (fun _ => true))
  | .dirs p => some (listQ env t p false (fun n => n.kind = .dir))
  | .files p => some (listQ env t p false (fun n => n.kind = .file))
  | .allPaths p => some (listQ env t p true (fun _ => true))
  | .allDirs p => some (listQ env t p true (fun n => n.kind = .dir))
  | .allFiles p => some (listQ env t p true (fun n => n.kind = .file))
  | .chmod p m => if permOk m then some (withPath env t p fun a => liftR (fun _ => .unit) (chmodOctal t a (some m) (some m) true)) else none
  | .chmodB p c =>
    if c.follow then none
    else if c.sym = [] then
      (if permOk c.dirs ∧ permOk c.files then
        some (withPath env t p fun a => liftR (fun _ => .unit)
          (chmodOctal t a (if c.dirs = 0 then none else some c.dirs) (if c.files = 0 then none else some c.files) c.recursive))
       else none)
    else if c.dirs = 0 ∧ c.files = 0 then
      some (withPath env t p fun a => liftR (fun _ => .unit) (chmodSym t a c.sym c.recursive))
    else none
  | .writeLines p ls => some (withPath env t p fun a => liftR (fun _ => .unit) (writeAll t a (ls.flatMap (fun l => utf8 l ++ [10])) false))
  | .appendLines p ls => some (withPath env t p fun a => liftR (fun _ => .unit) (writeAll t a (ls.flatMap (fun l => utf8 l ++ [10])) true))
  | .appendLine p l => some (withPath env t p fun a => liftR (fun _ => .unit) (writeAll t a (utf8 l ++ [10]) true))
  | .readLines p => some (withPath env t p fun a =>
      match get t a with
      | none => (.err (some .doesNotExist), t)
      | some n => if n.kind = .file then
          (match decodeUtf8 n.data with | some s => (.ok (.strs (specLines s)), t) | none => (.err none, t))
        else if n.kind = .dir then (.err (some .isNotFile), t) else (.err none, t))
  | .chown p u g => some (withPath env t p fun a => liftR (fun _ => .unit) (chown t a (some u) (some g) true))
  | .chownB p c => if c.follow then none else some (withPath env t p fun a => liftR (fun _ => .unit) (chown t a c.uid c.gid c.recursive))
  | .moveP a b => some (withPath env t a fun sa => withPath env t b fun da => liftR (fun _ => .unit) (moveP t sa da))
  | _ => none

/-! ### known-finding classes (the complement of the refinement domain `D`) -/

def entryAt (s : State) (env : Env) (p : Str) : Option (FsPath × Option Entry) :=
  match absWith env (renderP s.cwd) p with
  | .ok a => some (toPath a, alLookup (toPath a) s.entries)
  | _ => none

def isLinkAt (s : State) (env : Env) (p : Str) : Bool :=
  match entryAt s env p with | some (_, some e) => e.link | _ => false

/-- some proper ancestor of the resolved path is a link (used "as a directory") -/
def throughLink (s : State) (env : Env) (p : Str) : Bool :=
  match entryAt s env p with
  | some (a, _) => (prefixes a).any (fun q => q ≠ a && (match alLookup q s.entries with | some e => e.link | none => false))
  | none => false

/-- an ancestor-or-self of the resolved path is a link -/
def linkOnPath (s : State) (env : Env) (p : Str) : Bool := throughLink s env p || isLinkAt s env p

def isRootAt (s : State) (env : Env) (p : Str) : Bool :=
  match entryAt s env p with | some ([], _) => true | _ => false

def hasLinkChild (s : State) (env : Env) (p : Str) (all : Bool) : Bool :=
  match entryAt s env p with
  | some (a, _) => s.entries.any (fun kv => kv.2.link && isProperPrefix a kv.1 && (all || kv.1.length = a.length + 1))
  | none => false

def classOf (s : State) (env : Env) : Op → String
  -- `listing_includes_links` (dirs / files / all_dirs / all_files with a link below) is repaired: "-"
  | .writeLines _ ls | .appendLines _ ls => if (joinLines ls).isNone then "empty_lines_noop" else "-"
  | .appendLine _ l => if l = [] then "empty_lines_noop" else "-"
  | .readlink p =>
    match entryAt s env p with
    | some (k, some e) => if e.link && e.rel ≠ relative (renderP (e.alt.getD [])) (renderP k.dropLast) then "moved_link_rel_stale" else "-"
    | _ => "-"
  | .chmodB _ c =>
    if c.sym ≠ [] ∧ c.dirs = 0 ∧ c.files = 0 then
      (match parseExpr c.sym with
       | none => "sym_malformed"
       | some _ => "-")   -- `sym_kind_specific_clauses` is repaired (Props.C11_symbolic_full)
    else "-"
  | .remove p => match entryAt s env p with | some ([], _) => "remove_root" | _ => "-"
  | .removeAll p => match entryAt s env p with | some ([], _) => "remove_all_root" | _ => "-"
  | .chmod _ m => if m = 0 then "chmod_zero" else "-"
  | _ => "-"

/-! ### the invariant of C03 -/

/-- which clause fails, or `none` -/
def invViolation (s : State) : Option String :=
  let keys := s.entries.map (·.1)
  if !keys.Nodup then some "duplicate-key"
  else if (alLookup [] s.entries).map (fun e => e.dir && !e.link) != some true then some "root-missing-or-not-dir"
  else if s.root ≠ [] then some "root-not-absolute"
  else
    -- (2) parent exists, is a real directory and lists the name
    match s.entries.find? (fun kv => kv.1 ≠ [] &&
        (match alLookup kv.1.dropLast s.entries with
         | some pe => !(pe.dir && !pe.link && (match pe.files with | some fs => fs.contains (baseName kv.1) | none => false))
         | none => true)) with
    | some kv => some ("orphan-or-unlisted:" ++ String.ofList (renderP kv.1))
    | none =>
    -- (3) every listed name exists
    match s.entries.find? (fun kv => match kv.2.files with
        | some fs => fs.any (fun n => (alLookup (kv.1 ++ [n]) s.entries).isNone)
        | none => false) with
    | some kv => some ("listed-name-missing-under:" ++ String.ofList (renderP kv.1))
    | none =>
    -- (4) exactly the regular non-link files have byte content
    match s.entries.find? (fun kv => (kv.2.file && !kv.2.link) != (alLookup kv.1 s.files).isSome) with
    | some kv => some ("data-mismatch:" ++ String.ofList (renderP kv.1))
    | none =>
    match s.files.find? (fun kv => (alLookup kv.1 s.entries).isNone) with
    | some kv => some ("dangling-data:" ++ String.ofList (renderP kv.1))
    | none =>
    if !(s.files.map (·.1)).Nodup then some "duplicate-data-key"
    else
    -- (5) every entry reports the path it is stored under; (6) child set iff dir flag
    match s.entries.find? (fun kv => kv.2.path ≠ kv.1) with
    | some kv => some ("path-field:" ++ String.ofList (renderP kv.1))
    | none =>
    match s.entries.find? (fun kv => kv.2.files.isSome != kv.2.dir) with
    | some kv => some ("child-set-vs-dir-flag:" ++ String.ofList (renderP kv.1))
    | none =>
    match s.entries.find? (fun kv => match kv.2.files with | some fs => !fs.Nodup | none => false) with
    | some kv => some ("duplicate-child-name:" ++ String.ofList (renderP kv.1))
    | none => none

def Inv (s : State) : Prop := invViolation s = none

instance (s : State) : Decidable (Inv s) := by unfold Inv; infer_instance

end Rivia.Spec
