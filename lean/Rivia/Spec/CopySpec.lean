/-
  Rivia.Spec.CopySpec — reference semantics of `copy` / `copy_b` (no-follow) on the reference tree
  filesystem, written from the property text (C09) and the trait documentation; never from the
  Memfs code.

  `copySpec t s d mode cdirs cfiles` (keys already resolved):
  * `s = d`: nothing happens.  `s` missing: `DoesNotExist`.
  * destination root: `d ++ [name s]` when `d` is an existing directory, else `d`.
  * for every key `s ++ rel` of the source subtree *as it was when the call started*, at
    `root ++ rel`:
      directory — created (perm: `mode` when it applies to directories, i.e. `cdirs ∨ ¬cfiles`,
                  else the source's perm); an existing directory is kept as it is;
      file      — created with the source bytes (perm: `mode` when it applies to files, i.e.
                  `cfiles ∨ ¬cdirs`, else the source's perm); an existing regular file gets the
                  source bytes and keeps its perm;
      link      — a link with the same target and recorded kind; an error if anything exists there.
    A created entry is a copy of the source entry (kind, bytes, target, owner) up to the perm rule.
  * missing ancestors of the root are created as directories (perm: `mode` when it applies to
    directories, else the perm of the source's parent; default owner).
  * everything else is unchanged.
  Not pinned down (`.unspecified`): copying the root, a destination root at/below the source or
  above it (source and destination overlap), a kind conflict between an existing destination entry
  and the source entry.  The state component of an error result is not meaningful: `copy` is not
  atomic and the property says nothing about failed copies.
-/
import Rivia.Spec.TreeFs

namespace Rivia.Spec.TreeFs
open Rivia Rivia.Memfs Rivia.File

/-- same cwd and the same node at every key (node order and shadowed duplicates are irrelevant) -/
def TEquiv (a b : T) : Prop := a.cwd = b.cwd ∧ ∀ k, get a k = get b k

theorem TEquiv.refl (a : T) : TEquiv a a := ⟨rfl, fun _ => rfl⟩
theorem TEquiv.symm {a b : T} (h : TEquiv a b) : TEquiv b a := ⟨h.1.symm, fun k => (h.2 k).symm⟩
theorem TEquiv.trans {a b c : T} (h1 : TEquiv a b) (h2 : TEquiv b c) : TEquiv a c :=
  ⟨h1.1.trans h2.1, fun k => (h1.2 k).trans (h2.2 k)⟩

/-- the `mode` option as it applies to directories / to files (`chmod_dirs`, `chmod_files`,
    `chmod_all`; with neither flag set the mode applies to both) -/
def dirPerm (mode : Option Nat) (cdirs cfiles : Bool) : Option Nat := if cdirs || !cfiles then mode else none
def filePerm (mode : Option Nat) (cdirs cfiles : Bool) : Option Nat := if cfiles || !cdirs then mode else none

/-- copying the source node `n` into a destination slot holding `m` -/
def copyOne (dm fm : Option Nat) (n : Node) : Option Node → R Node
  | none =>
    match n.kind with
    | .dir => .ok { n with perm := dm.getD n.perm }
    | .file => .ok { n with perm := fm.getD n.perm }
    | .link _ => .ok n
  | some m =>
    match n.kind, m.kind with
    | .dir, .dir => .ok m
    | .file, .file => .ok { m with data := n.data }
    | .link _, _ => .err none
    | _, _ => .unspecified

def R.isUnspecified {α} : R α → Bool
  | .unspecified => true
  | _ => false

def R.isErr {α} : R α → Bool
  | .err _ => true
  | _ => false

/-- create the missing ones among the given (proper) ancestors, shortest first -/
def mkAncestors (perm : Nat) (anc : List FsPath) (t : T) : T :=
  anc.foldl (fun acc q => match get acc q with | some _ => acc | none => put acc q (newDir perm)) t

def putOuts (outs : List (FsPath × R Node)) (t : T) : T :=
  outs.foldl (fun acc o => match o.2 with | .ok n => put acc o.1 n | _ => acc) t

def copySpec (t : T) (s d : FsPath) (mode : Option Nat) (cdirs cfiles : Bool) : R Unit × T :=
  if s = d then (.ok (), t) else
  match get t s with
  | none => (.err (some .doesNotExist), t)
  | some _ =>
    if s = [] then (.unspecified, t) else
    let root := if isDir t d then d ++ [baseName s] else d
    if isPrefixOrEq s root || isPrefixOrEq root s then (.unspecified, t) else
    let dm := dirPerm mode cdirs cfiles
    let fm := filePerm mode cdirs cfiles
    -- the source subtree as it is now, and what becomes of each destination slot
    let sub := t.nodes.filter (fun kv => isPrefixOrEq s kv.1)
    let outs := sub.map (fun kv => (root ++ kv.1.drop s.length,
                                    copyOne dm fm kv.2 (get t (root ++ kv.1.drop s.length))))
    if outs.any (fun o => o.2.isUnspecified) then (.unspecified, t) else
    let anc := (prefixes root).dropLast
    if anc.any (fun q => match get t q with | some n => n.kind ≠ .dir | none => false) then (.err none, t)
    else if outs.any (fun o => o.2.isErr) then (.err none, t)
    else
      let pperm := dm.getD (match get t s.dropLast with | some p => p.perm | none => 0o755)
      (.ok (), putOuts outs (mkAncestors pperm anc t))

end Rivia.Spec.TreeFs
