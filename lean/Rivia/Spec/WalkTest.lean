/-
  Rivia.Spec.WalkTest — TEST (not a proof): `collectEntries` (the stack machine of the model)
  against `Spec.entriesSpec` (the recursive walk) on hand-made snapshots, over all option
  combinations. The `#eval`s print the number of compared combinations and the mismatching ones,
  split by class.
-/
import Rivia.Spec.Walk
import Rivia.Spec.MemfsJudge

namespace Rivia.Spec.WalkTest
open Rivia Rivia.Memfs Rivia.Spec

def s (x : String) : Str := x.toList
def p (xs : List String) : FsPath := xs.map s

def dirE (path : List String) (kids : List String) : FsPath × Entry :=
  (p path, { mkDirEntry (p path) none with files := some (kids.map s) })
def fileE (path : List String) : FsPath × Entry := (p path, mkFileEntry (p path))
def linkE (path target : List String) (toDir : Bool) : FsPath × Entry :=
  (p path, { path := p path, alt := some (p target), rel := [], dir := toDir, file := !toDir, link := true,
             mode := optsMode true (!toDir) toDir none, uid := 1000, gid := 1000, follow := false,
             cached := false, files := if toDir then some [] else none })

/-- /: a/ (a/x, a/b/ (a/b/y), a/c/), d/, f, g -/
def snap1 : Snap :=
  [dirE [] ["a", "d", "f", "g"], dirE ["a"] ["b", "c", "x"], fileE ["a", "x"], dirE ["a", "b"] ["y"],
   fileE ["a", "b", "y"], dirE ["a", "c"] [], dirE ["d"] [], fileE ["f"], fileE ["g"]]

/-- files sort before directories by name; a link to a directory and a link to a file -/
def snap2 : Snap :=
  [dirE [] ["a", "b", "l", "m", "z"], fileE ["a"], dirE ["b"] ["k", "q"], fileE ["b", "k"], dirE ["b", "q"] ["r"],
   fileE ["b", "q", "r"], linkE ["l"] ["b"] true, linkE ["m"] ["a"] false, dirE ["z"] ["a"], fileE ["z", "a"]]

/-- a subtree snapshot: the root of the walk is `/t`, deep chain -/
def snap3 : Snap :=
  [dirE ["t"] ["u", "v"], dirE ["t", "u"] ["w"], dirE ["t", "u", "w"] ["x"], dirE ["t", "u", "w", "x"] ["y"],
   fileE ["t", "u", "w", "x", "y"], fileE ["t", "v"]]

/-- root is a file -/
def snap4 : Snap := [fileE ["f"]]

def rootOf (snap : Snap) : Entry := match snap with | (_, e) :: _ => e | [] => mkDirEntry [] none

def allOpts : List Opts := Id.run do
  let mut r := []
  for mn in [0, 1, 2, 3] do
    for mx in [0, 1, 2, 3, 2 ^ 64 - 1] do
      for (d, f) in [(false, false), (true, false), (false, true)] do
        for sorted in [false, true] do
          for (df, ff) in [(false, false), (true, false), (false, true)] do
            for cf in [false, true] do
              for md in [0, 1, 50] do
                r := { dirs := d, files := f, minDepth := mn, maxDepth := mx, maxDesc := md,
                       dirsFirst := df, filesFirst := ff, contentsFirst := cf, sorted := sorted : Opts } :: r
  return r

def agree (snap : Snap) (o : Opts) : Bool :=
  collectEntries snap o (rootOf snap) == .ok (entriesSpec snap o (rootOf snap))

/-- the domain of the exactness theorem: sorted (or no grouping), parents first -/
def inDomain (o : Opts) : Bool := !o.contentsFirst && (o.sorted || (!o.dirsFirst && !o.filesFirst))

/-- contents first, no filter, no lower depth bound -/
def inDomainCF (o : Opts) : Bool := o.contentsFirst && !o.dirs && !o.files && o.minDepth == 0
  && (o.sorted || (!o.dirsFirst && !o.filesFirst))

def report (snap : Snap) : Nat × Nat × Nat × Nat × Nat :=
  let os := allOpts
  (os.length,
   (os.filter (fun o => inDomain o && !agree snap o)).length,
   (os.filter (fun o => inDomainCF o && !agree snap o)).length,
   (os.filter (fun o => o.contentsFirst && !inDomainCF o && !agree snap o)).length,
   (os.filter (fun o => !o.contentsFirst && !inDomain o && !agree snap o)).length)

-- (combinations, mismatches in the domain, mismatches in the contents-first domain,
--  mismatches with contents_first outside it, mismatches unsorted+grouped)
#eval report snap1
#eval report snap2
#eval report snap3
#eval report snap4

def names (r : Outcome (List Entry)) : Outcome (List String) :=
  match r with
  | .ok es => .ok (es.map (fun e => String.ofList (renderP e.path)))
  | .err k => .err k | .panic => .panic | .hang => .hang

-- contents_first + files filter: directories are still yielded
#eval names (collectEntries snap1 { files := true, contentsFirst := true, sorted := true } (rootOf snap1))
#eval (entriesSpec snap1 { files := true, contentsFirst := true, sorted := true } (rootOf snap1)).map (fun e => String.ofList (renderP e.path))
-- contents_first + min_depth 1: depth-1 directories come out last, in reverse order
#eval names (collectEntries snap1 { minDepth := 1, contentsFirst := true, sorted := true } (rootOf snap1))
#eval (entriesSpec snap1 { minDepth := 1, contentsFirst := true, sorted := true } (rootOf snap1)).map (fun e => String.ofList (renderP e.path))

/-! ### snapshots produced by the model itself (`run` + `entriesOf`), links included -/

def env0 : Env := fun v => if v = "HOME".toList then some "/home/u".toList else none

def hist : List Op := [.mkdirP (s "/a/b/c"), .mkfile (s "/a/x"), .mkfile (s "/a/b/y"), .mkdirP (s "/d"),
  .symlink (s "/a/l") (s "/d"), .symlink (s "/a/b/m") (s "/a/x"), .mkfile (s "/d/z"), .symlink (s "/a/0") (s "/a/b"),
  .mkdirP (s "/a/b/c/e"), .symlink (s "/a/b/c/1") (s "/a/b/c/e"), .mkfile (s "/a/b/c/e/f")]

def st : State := run env0 init hist

/-- for the subtree at `a`: snapshot size, the hypotheses of the theorems (`SnapWf`, `InSnap`,
    `SnapOf`, `Inv`), and the number of option combinations without `follow` on which the machine
    and the walk disagree inside the proved domain -/
def stateReport (a : List String) : String :=
  let k := p a
  match entriesOf st k with
  | .ok (r, snap) =>
    let bad := (allOpts.filter (fun o => (inDomain o || inDomainCF o) &&
      !(collectEntries snap o r == .ok (entriesSpec snap o r)))).length
    s!"snap {snap.length} SnapWf {decide (SnapWf snap)} InSnap {decide (InSnap snap r)} SnapOf {decide (SnapOf st k snap)} Inv {decide (Spec.Inv st)} mismatches {bad}"
  | _ => "entriesOf failed"

#eval stateReport []
#eval stateReport ["a"]
#eval stateReport ["a", "b"]
#eval stateReport ["d"]

end Rivia.Spec.WalkTest
