/-
  Rivia.Spec.MacroSpec — what the `assert_vfs_*!` macros are documented to assert
  (doc comments of `src/testing/assert.rs`), stated on the reference view `absS` of the state.

  Reading of the documentation:
  * A path argument denotes the key `abs` resolves it to (against the current directory). A path that
    cannot be resolved denotes nothing: no assertion about it holds (this is also what the unit tests
    of the macros expect: `assert_vfs_no_exists!(vfs, "")` must fail).
  * Checking macros (state unchanged):
      exists      "Assert that a file or directory exists"
      no_exists   "Assert the given path doesn't exist"
      is_dir      "Assert that the given path exists and is a directory"      (links excluded)
      no_dir      "Assert that the given path isn't a directory"
      is_file     "Assert that the given path exists and is a file"           (links excluded)
      no_file     "Assert that the given path isn't a file"
      is_symlink  "Assert that the given path exists and is a symlink"
      no_symlink  "Assert that the given path isn't a symlink"
      read_all    "Assert data read from the file matches the input data"
      readlink    "Assert the reading of a link's target relative path"
      readlink_abs "Assert the reading of a link's target absolute path"
  * Acting macros ("Assert the creation of ..", "Assert the removal of ..", "Assert data is written
    to the given file", "Assert the copy of a file"): the operation is performed — the post-state is
    the state after the corresponding vfs call — and the assertion holds iff that call succeeded and
    its postcondition holds in the post-state.
  * Documented exceptions (`documentedNoop`): "Assert the creation of a symlink. If the symlink exists
    no change is made" and "Assert the creation of a file. If the file exists no change is made" —
    `assert_vfs_symlink!` on an existing link (whatever it points to) and `assert_vfs_mkfile!` on an
    existing regular file hold and leave the state alone. `assert_vfs_write_all!` has no such exception.
    Likewise "Assert the removal of the target file or directory" of a path that does not exist holds
    with nothing to do (`vfs.remove` itself may even fail there, e.g. below a regular file).
-/
import Rivia.Model.Macros
import Rivia.Spec.MemfsJudge

namespace Rivia.Spec.MacroSpec
open Rivia Rivia.Memfs Rivia.File Rivia.Spec Rivia.Spec.TreeFs Rivia.Macros

/-- the key a user path denotes (depends on the current directory only) -/
def keyOf (env : Env) (s : State) (p : Str) : Option FsPath :=
  match resolve env (absS s) p with
  | .ok a => some a
  | _ => none

/-- the node of the reference tree a user path denotes -/
def nodeOf (env : Env) (s : State) (p : Str) : Option Node :=
  match keyOf env s p with
  | some a => get (absS s) a
  | none => none

def isLinkKind : Kind → Bool
  | .link _ => true
  | _ => false

def pExists (env : Env) (s : State) (p : Str) : Bool := (nodeOf env s p).isSome
def pIsDir (env : Env) (s : State) (p : Str) : Bool :=
  match nodeOf env s p with | some n => n.kind = .dir | none => false
def pIsFile (env : Env) (s : State) (p : Str) : Bool :=
  match nodeOf env s p with | some n => n.kind = .file | none => false
def pIsLink (env : Env) (s : State) (p : Str) : Bool :=
  match nodeOf env s p with | some n => isLinkKind n.kind | none => false
def resolvable (env : Env) (s : State) (p : Str) : Bool := (keyOf env s p).isSome

/-- `p` is a file whose bytes are `d` -/
def pHasBytes (env : Env) (s : State) (p : Str) (d : Bytes) : Bool :=
  match nodeOf env s p with | some n => n.kind = .file && n.data = d | none => false

/-- `p` is a file whose content decodes to the text `d` -/
def pHasText (env : Env) (s : State) (p : Str) (d : Str) : Bool :=
  match nodeOf env s p with | some n => n.kind = .file && decodeUtf8 n.data = some d | none => false

/-- `p` is a link whose absolute target is the key `t` -/
def pLinksTo (env : Env) (s : State) (p : Str) (t : FsPath) : Bool :=
  match nodeOf env s p with | some n => isLinkKind n.kind && n.target = some t | none => false

/-- the relative target of a link is what the vfs reports for it (`readlink`): the reference tree
    keeps absolute targets only -/
def pRelTarget (env : Env) (s : State) (p : Str) (t : Str) : Bool :=
  pIsLink env s p && (step env s (.readlink p)).1 = .ok (.str t)

/-- the documented predicate of a checking macro (`true` for the acting ones) -/
def checkSpec (env : Env) (s : State) : MacroCall → Bool
  | .exists p => pExists env s p
  | .noExists p => resolvable env s p && !pExists env s p
  | .isDir p => pIsDir env s p
  | .noDir p => resolvable env s p && !pIsDir env s p
  | .isFile p => pIsFile env s p
  | .noFile p => resolvable env s p && !pIsFile env s p
  | .isSymlink p => pIsLink env s p
  | .noSymlink p => resolvable env s p && !pIsLink env s p
  | .readAll p d => pHasText env s p d
  | .readlink p t => pRelTarget env s p t
  | .readlinkAbs p t =>
    match keyOf env s t with
    | some ta => pLinksTo env s p ta
    | none => false
  | _ => true

/-- the vfs call an acting macro is documented to perform -/
def opOf : MacroCall → Option Op
  | .mkdirP p => some (.mkdirP p)
  | .mkdirM p mode => some (.mkdirM p mode)
  | .mkfile p => some (.mkfile p)
  | .writeAll p d => some (.writeAll p d)
  | .copyfile a b => some (.copy a b)
  | .symlink l t => some (.symlink l t)
  | .remove p => some (.remove p)
  | .removeAll p => some (.removeAll p)
  | _ => none

/-- the string `symlink(link, target)` resolves the target from: relative targets are taken
    relative to the directory of the link -/
def linkTargetStr (l : FsPath) (t : Str) : Str :=
  if isAbsolute t then t else mash (renderP l.dropLast) t

/-- the postcondition of an acting macro, evaluated in the post-state `s'` -/
def postSpec (env : Env) (s' : State) : MacroCall → Bool
  | .mkdirP p => pIsDir env s' p
  | .mkdirM p mode => pIsDir env s' p && (step env s' (.mode p)).1 = .ok (.nat mode)
  | .mkfile p => pIsFile env s' p
  | .writeAll p d => pHasBytes env s' p d
  | .copyfile a b =>
    -- dst is a file with the content of src (both read after the copy)
    match nodeOf env s' a with
    | some n => n.kind = .file && pHasBytes env s' b n.data
    | none => false
  | .symlink l t =>
    match keyOf env s' l with
    | some la =>
      (match keyOf env s' (linkTargetStr la t) with
       | some ta => pLinksTo env s' l ta
       | none => false)
    | none => false
  | .remove p => resolvable env s' p && !pExists env s' p
  | .removeAll p => resolvable env s' p && !pExists env s' p
  | _ => true

/-- the cases in which nothing has to be done: the documented "if it exists no change is made" of
    `symlink` / `mkfile`, and `remove` of a path that does not exist (its postcondition holds) -/
def documentedNoop (env : Env) (s : State) : MacroCall → Bool
  | .symlink l _ => pIsLink env s l
  | .mkfile p => pIsFile env s p
  | .remove p => resolvable env s p && !pExists env s p
  | _ => false

/-- (should the macro pass, expected post-state) -/
def macroSpec (env : Env) (s : State) (m : MacroCall) : Bool × State :=
  if documentedNoop env s m then (true, s)
  else match opOf m with
    | none => (checkSpec env s m, s)
    | some op =>
      let r := step env s op
      (r.1.isOk && postSpec env r.2 m, r.2)

end Rivia.Spec.MacroSpec

