/-
  Rivia.Spec.TreeFs — the reference tree filesystem (DESIGN Appendix A), written from the trait
  documentation in `src/sys/fs/vfs.rs` and the property texts; never from the Memfs code.

  State: a path-keyed map of nodes + cwd. Well-formed: `/` is a directory; every other key's
  parent is a key and is a directory. No child sets, no separate data map.
  Path arguments are resolved by `abs` (C05) before they reach the spec: the spec works on keys.
-/
import Rivia.Model.MemfsOps
import Rivia.Spec.ChmodGrammar

namespace Rivia.Spec.TreeFs
open Rivia Rivia.Memfs Rivia.File

inductive Kind where
  | dir | file
  | link (toDir : Bool)      -- what the target was when the link was made
  deriving DecidableEq, Repr

structure Node where
  kind : Kind
  perm : Nat                 -- permission bits (type bits derive from the kind)
  uid : Nat
  gid : Nat
  target : Option FsPath     -- links only
  data : Bytes               -- files only
  deriving DecidableEq, Repr

structure T where
  nodes : List (FsPath × Node)
  cwd : FsPath
  deriving DecidableEq, Repr

def typeBits : Kind → Nat
  | .dir => 0o40000
  | .file => 0o100000
  | .link _ => 0o120000

def Node.mode (n : Node) : Nat := typeBits n.kind ||| n.perm

def get (t : T) (p : FsPath) : Option Node := alLookup p t.nodes
def put (t : T) (p : FsPath) (n : Node) : T := { t with nodes := alInsert p n t.nodes }
def del (t : T) (p : FsPath) : T := { t with nodes := alErase p t.nodes }

def isDir (t : T) (p : FsPath) : Bool := match get t p with | some n => n.kind = .dir | none => false
def isFile (t : T) (p : FsPath) : Bool := match get t p with | some n => n.kind = .file | none => false
def isLink (t : T) (p : FsPath) : Bool := match get t p with | some n => (match n.kind with | .link _ => true | _ => false) | none => false

def isLinkToDir (t : T) (p : FsPath) : Bool := match get t p with | some n => n.kind = Kind.link true | none => false

def isProperPrefix (p q : FsPath) : Bool := p.length < q.length && q.take p.length == p
def isPrefixOrEq (p q : FsPath) : Bool := p.length ≤ q.length && q.take p.length == p

/-- keys strictly below `p` -/
def below (t : T) (p : FsPath) : List FsPath := (t.nodes.map (·.1)).filter (isProperPrefix p)

def newDir (perm : Nat) : Node := ⟨.dir, perm, 1000, 1000, none, []⟩
def newFile : Node := ⟨.file, 0o644, 1000, 1000, none, []⟩

/-- spec result: `err none` = an error whose kind the documentation does not name -/
inductive R (α : Type) where
  | ok (a : α)
  | err (k : Option ErrKind)
  | unspecified                 -- outside what the documentation / the property pins down
  deriving Repr

/-- the checks shared by mkfile / write / append: parent must be an existing directory -/
def parentCheck (t : T) (p : FsPath) : Option (Option ErrKind) :=
  if p = [] then none
  else match get t p.dropLast with
    | none => some (some .doesNotExist)
    | some n => if n.kind = .dir then none else some (some .isNotDir)

def mkfile (t : T) (p : FsPath) : R FsPath × T :=
  if p = [] then (.unspecified, t) else
  match parentCheck t p with
  | some e => (.err e, t)
  | none =>
    match get t p with
    | some n => if n.kind = .file then (.ok p, t) else (.err (some .isNotFile), t)
    | none => (.ok p, put t p newFile)

/-- mkdir_p / mkdir_m: every prefix top-down; existing dir kept, other kind → IsNotDir, missing → created -/
def mkdirLoop (perm : Nat) : List FsPath → T → Option ErrKind × T
  | [], t => (none, t)
  | q :: qs, t =>
    match get t q with
    | some n => if n.kind = .dir then mkdirLoop perm qs t else (some .isNotDir, t)
    | none => mkdirLoop perm qs (put t q (newDir perm))

def mkdir (t : T) (p : FsPath) (perm : Nat) : R FsPath × T :=
  -- `mkdir -p` onto a link to a directory: not pinned down (POSIX succeeds, link exclusion says no)
  if isLinkToDir t p then (.unspecified, t) else
  -- all existing prefixes precede all missing ones, so a failure happens before any insertion
  let bad := (prefixes p).find? (fun q => match get t q with | some n => n.kind ≠ .dir | none => false)
  match bad with
  | some _ => (.err (some .isNotDir), t)
  | none => match mkdirLoop perm (prefixes p) t with
    | (none, t') => (.ok p, t')
    | (some e, _) => (.err (some e), t)

def writeAll (t : T) (p : FsPath) (d : Bytes) (append : Bool) : R Unit × T :=
  if p = [] then (.err none, t) else
  match parentCheck t p with
  | some e => (.err e, t)
  | none =>
    match get t p with
    | some n =>
      if n.kind = .file then (.ok (), put t p { n with data := if append then n.data ++ d else d })
      else if n.kind = Kind.dir then (.err (some .isNotFile), t)
      else (.err none, t)
    | none => (.ok (), put t p { newFile with data := d })

def remove (t : T) (p : FsPath) : R Unit × T :=
  match get t p with
  | none =>
    if p = [] then (.unspecified, t)
    -- a missing path is not an error; when its parent is not a directory either answer is accepted
    else match get t p.dropLast with
      | some n => if n.kind = .dir then (.ok (), t) else (.unspecified, t)
      | none => (.ok (), t)
  | some _ =>
    if p = [] then (.err none, t)
    else if (below t p).isEmpty then (.ok (), del t p)
    else (.err (some .dirContainsFiles), t)

def removeAll (t : T) (p : FsPath) : R Unit × T :=
  if p = [] then (.unspecified, t)
  else (.ok (), { t with nodes := t.nodes.filter (fun kv => !(isPrefixOrEq p kv.1)) })

/-- symlink l → t (both already resolved; `t` resolved against `dir l` when relative) -/
def symlink (t : T) (l tgt : FsPath) : R FsPath × T :=
  if l = [] then (.err none, t) else
  match parentCheck t l with
  | some e => (.err e, t)
  | none =>
    match get t l with
    | some _ => (.err none, t)
    | none =>
      -- the recorded kind: a directory, or (transitively) a link that was made to a directory
      let toDir := match get t tgt with | some n => n.kind = .dir || n.kind = .link true | none => false
      (.ok l, put t l ⟨.link toDir, 0o777, 1000, 1000, some tgt, []⟩)

def setCwd (t : T) (p : FsPath) : R FsPath × T :=
  match get t p with
  | none => (.err (some .doesNotExist), t)
  | some n =>
    if n.kind = .dir then (.ok p, { t with cwd := p })
    else if n.kind = Kind.link true then (.unspecified, t)      -- chdir through a link: not pinned down
    else (.err none, t)

/-- insertion sort of keys (component-wise lexicographic) -/
def pathLt : FsPath → FsPath → Bool
  | [], [] => false
  | [], _ :: _ => true
  | _ :: _, [] => false
  | a :: as, b :: bs => if strLt a b then true else if strLt b a then false else pathLt as bs

def insertP (x : FsPath) : List FsPath → List FsPath
  | [] => [x]
  | y :: ys => if pathLt x y then x :: y :: ys else y :: insertP x ys

def sortP (l : List FsPath) : List FsPath := l.foldr insertP []

/-- listings: `p` must be a directory; children (depth 1) or all descendants, name-sorted
    (depth-first pre-order with sorted siblings = lexicographic on component lists) -/
def listing (t : T) (p : FsPath) (all : Bool) (want : Node → Bool) : R (List FsPath) :=
  if !isDir t p then .err (some .isNotDir)
  else
    let ks := (t.nodes.filter (fun kv => isProperPrefix p kv.1 && (all || kv.1.length = p.length + 1) && want kv.2)).map (·.1)
    .ok (sortP ks)

/-- octal chmod (`chmod(p, m)` is recursive; links are never altered; `m = 0` is a valid value) -/
def chmodOctal (t : T) (p : FsPath) (dirPerm filePerm : Option Nat) (recursive : Bool) : R Unit × T :=
  match get t p with
  | none => (.err (some .doesNotExist), t)
  | some _ =>
    let sel (k : FsPath) : Bool := k = p || (recursive && isProperPrefix p k && isDir t p)
    (.ok (), { t with nodes := t.nodes.map (fun kv =>
      if sel kv.1 then
        match kv.2.kind, dirPerm, filePerm with
        | .dir, some m, _ => (kv.1, { kv.2 with perm := m })
        | .file, _, some m => (kv.1, { kv.2 with perm := m })
        | _, _, _ => kv
      else kv) })

/-- symbolic chmod on the selected entries: every selected non-link node gets the mode the grammar
    prescribes for its kind; a malformed expression is an error and changes nothing -/
def chmodSym (t : T) (p : FsPath) (sym : List Char) (recursive : Bool) : R Unit × T :=
  match get t p with
  | none => (.err (some .doesNotExist), t)
  | some _ =>
    match parseExpr sym with
    | none => (.err none, t)
    | some cs =>
      let sel (k : FsPath) : Bool := k = p || (recursive && isProperPrefix p k && isDir t p)
      (.ok (), { t with nodes := t.nodes.map (fun kv =>
        if sel kv.1 then
          match kv.2.kind with
          | .dir => (kv.1, { kv.2 with perm := applyExpr ⟨true, false, false⟩ cs kv.2.mode - typeBits .dir })
          | .file => (kv.1, { kv.2 with perm := applyExpr ⟨false, true, false⟩ cs kv.2.mode - typeBits .file })
          | .link _ => kv
        else kv) })

def chown (t : T) (p : FsPath) (uid gid : Option Nat) (recursive : Bool) : R Unit × T :=
  match get t p with
  | none => (.err (some .doesNotExist), t)
  | some _ =>
    let sel (k : FsPath) : Bool := k = p || (recursive && isProperPrefix p k && isDir t p)
    (.ok (), { t with nodes := t.nodes.map (fun kv =>
      if sel kv.1 then (kv.1, { kv.2 with uid := uid.getD kv.2.uid, gid := gid.getD kv.2.gid }) else kv) })

/-- move_p: validate first, then re-key the subtree; a failed move changes nothing -/
def moveP (t : T) (s d : FsPath) : R Unit × T :=
  match get t s with
  | none => (.err (some .doesNotExist), t)
  | some sn =>
    let dst := if isDir t d then d ++ [baseName s] else d
    if s = [] then (.unspecified, t)                                   -- moving the root: outside the domain
    else if s = dst then (.ok (), t)
    else if isPrefixOrEq s dst then (.err none, t)                      -- into its own subtree
    else if dst = [] then (.err none, t)
    else if !isDir t dst.dropLast then (.err none, t)                   -- destination parent must be a directory
    else
      let okDst : Bool := match get t dst with
        | none => true
        | some dn => (sn.kind = Kind.file && dn.kind = Kind.file)
      -- a directory onto an existing empty directory: rename(2) allows it, the documentation is silent
      let emptyDirOntoDir : Bool := match get t dst with
        | some dn => sn.kind = Kind.dir && dn.kind = Kind.dir && (below t dst).isEmpty
        | none => false
      if emptyDirOntoDir then (.unspecified, t)
      else if !okDst then (.err none, t)
      else
        let moved := t.nodes.filterMap (fun kv => if isPrefixOrEq s kv.1 then some (dst ++ kv.1.drop s.length, kv.2) else none)
        let rest := t.nodes.filter (fun kv => !(isPrefixOrEq s kv.1) && kv.1 ≠ dst)
        (.ok (), { t with nodes := rest ++ moved })

end Rivia.Spec.TreeFs
