/-
  Rivia.Spec.Cursor — `std::io::Cursor<&[u8]>` as documented: reads clamp at the end, a seek to a
  negative (or overflowing) position is `InvalidInput` and leaves the position unchanged.
-/
import Rivia.Model.Outcome
import Rivia.Model.File

namespace Rivia.Spec
open Rivia Rivia.File

structure Cursor where
  pos : Nat
  data : Bytes
  deriving Repr, DecidableEq

def Cursor.read (c : Cursor) (n : Nat) : Bytes × Cursor :=
  let out := (c.data.drop c.pos).take n
  (out, { c with pos := c.pos + out.length })

def Cursor.seek (c : Cursor) (w : Whence) (off : Int) : Outcome (Nat × Cursor) :=
  match w with
  | .start => .ok (off.toNat, { c with pos := off.toNat })
  | .current =>
    let s : Int := c.pos + off
    if s < 0 ∨ s ≥ 2 ^ 64 then .err .ioInvalidInput else .ok (s.toNat, { c with pos := s.toNat })
  | .endw =>
    let s : Int := c.data.length + off
    if s < 0 ∨ s ≥ 2 ^ 64 then .err .ioInvalidInput else .ok (s.toNat, { c with pos := s.toNat })

/-- `read_to_end` on a cursor: everything from the position (nothing when beyond the end) -/
def Cursor.readAll (c : Cursor) : Bytes × Cursor :=
  let out := c.data.drop c.pos
  (out, { c with pos := c.pos + out.length })

def Cursor.runOps : Cursor → List HOp → List Obs
  | _, [] => []
  | c, .read n :: ops => let (b, c') := c.read n; .bytes b :: Cursor.runOps c' ops
  | c, .readAll :: ops => let (b, c') := c.readAll; .bytes b :: Cursor.runOps c' ops
  | c, .seek w o :: ops =>
    match c.seek w o with
    | .ok (p, c') => .pos p :: Cursor.runOps c' ops
    | .err k => .err k :: Cursor.runOps c ops
    | _ => []

end Rivia.Spec
