/-
  Rivia.Spec.GoClean — Go's `path.Clean`, written from the six documented rules as a stack fold
  over the `/`-separated pieces (never from the Rust code):
    1. multiple slashes → one           (empty pieces are skipped)
    2. `.` elements are eliminated
    3. an inner `..` cancels the preceding non-`..` element
    4. `..` directly under the root is dropped
    5. leading `..` of a non-rooted path are kept
    6. no trailing slash; the empty result is `.`
  The stack is kept reversed (top at head).
-/
import Rivia.Model.Str

namespace Rivia.Spec
open Rivia Rivia.Str

def dotdot : Str := ['.', '.']

def goStep (rooted : Bool) (stack : List Str) (piece : Str) : List Str :=
  if piece = [] ∨ piece = ['.'] then stack
  else if piece = dotdot then
    match stack with
    | top :: below => if top = dotdot then piece :: stack else below
    | [] => if rooted then [] else [piece]
  else piece :: stack

def goRooted : Str → Bool
  | '/' :: _ => true
  | _ => false

def goClean (s : Str) : Str :=
  let rooted := goRooted s
  let stack := (splitOn '/' s).foldl (goStep rooted) []
  let body := joinWith '/' stack.reverse
  let out := if rooted then '/' :: body else body
  if out = [] then ['.'] else out

end Rivia.Spec
