/-
  Rivia.Spec.PathLaws — what C15 demands of the path helpers, written from the property text
  (never from the Rust code): plain list/containment definitions.
-/
import Rivia.Model.Path

namespace Rivia.Spec
open Rivia Rivia.Str

/-- body components (normal / `..`) of a string, no root, no `.` -/
def bodyComps (s : Str) : List Comp := (splitSlash s).filterMap bodyComp

/-- components of `mash d p`: those of `d` followed by those of `p` with every leading separator
    removed; for an empty `d` just the latter. -/
def mashComps (d p : Str) : List Comp :=
  if d = [] then components (stripSlashes p) else components d ++ bodyComps (stripSlashes p)

def mashSpec (d p : Str) : Str := render (mashComps d p)

/-- `trim_prefix`: remove the prefix `s` if `p` starts with it, else `p` unchanged -/
def trimPrefixSpec (p s : Str) : Str := if s.isPrefixOf p then p.drop s.length else p

/-- `trim_suffix`: remove the suffix `s` if `p` ends with it, else `p` unchanged -/
def trimSuffixSpec (p s : Str) : Str := if s.isSuffixOf p then p.take (p.length - s.length) else p

/-- substring test, stated with explicit witnesses -/
def IsInfix (v p : Str) : Prop := ∃ a b, p = a ++ v ++ b

def schemes : List Str := ["file".toList, "ftp".toList, "http".toList, "https".toList]

/-- `trim_protocol`: drop one leading `<scheme>://` (ASCII case-insensitive), nothing else -/
def trimProtocolSpec (p : Str) : Str :=
  match schemes.find? (fun sc => lower (p.take (sc.length + 3)) == sc ++ "://".toList) with
  | some sc => p.drop (sc.length + 3)
  | none => p

/-- `name`: the last component without its extension -/
def nameSpec (p : Str) : Outcome Str :=
  match (components p).getLast? with
  | none => .err .iterItemNotFound
  | some c =>
    match extension p with
    | some e => .ok (c.str.take (c.str.length - (e.length + 1)))
    | none => .ok c.str

/-- the `trim_ext`/`ext` law as a boolean on given outputs (as *paths*: component equality) -/
def trimExtLaw (p : Str) (trimmed : Str) (e : Str) : Bool :=
  components (trimmed ++ '.' :: e) == components p

def parsePathsSpec (s : Str) : List Str := (splitOn ':' s).filter (fun x => x ≠ [])

end Rivia.Spec
