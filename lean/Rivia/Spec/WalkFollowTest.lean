/-
  Rivia.Spec.WalkFollowTest — TEST (not a proof): the stack machine of the model (`runIter`)
  against `Spec.entriesSpecF` on hand-made snapshots with links, over all option combinations
  with `follow = true` (and `follow = false`, where it must also agree with `entriesSpec`).
-/
import Rivia.Spec.WalkFollow
import Rivia.Model.MemfsOps

namespace Rivia.Spec.WalkFollowTest
open Rivia Rivia.Memfs Rivia.Spec

def s (x : String) : Str := x.toList
def p (xs : List String) : FsPath := xs.map s

def dirE (path : List String) (kids : List String) : FsPath × Entry :=
  (p path, { mkDirEntry (p path) none with files := some (kids.map s) })
def fileE (path : List String) : FsPath × Entry := (p path, mkFileEntry (p path))
def linkE (path target : List String) (toDir : Bool) : FsPath × Entry :=
  (p path, { path := p path, alt := some (p target), rel := [], dir := toDir, file := !toDir, link := true,
             mode := optsMode true (!toDir) toDir none, uid := 1000, gid := 1000, follow := false,
             cached := false, files := if toDir then some [] else none })

/-- the model run to exhaustion with the given fuel: yielded entries, final outcome -/
def modelRun (snap : Snap) (o : Opts) (rootE : Entry) (fuel : Nat) : List Entry × Outcome Unit :=
  match runIter snap o noPre rootE (fun e (acc : List Entry) => (.ok (), e :: acc)) fuel {} [] with
  | (r, acc) => (acc.reverse, r)

def specRun (snap : Snap) (o : Opts) (rootE : Entry) : List Entry × Outcome Unit :=
  match entriesSpecF snap o rootE with
  | (ys, none) => (ys, .ok ())
  | (ys, some k) => (ys, .err k)

def rootOf (snap : Snap) : Entry := match snap with | (_, e) :: _ => e | [] => mkDirEntry [] none

/-- link to a sibling directory: /top: a/ (a/x, a/y/ (a/y/z)), l -> /top/a, f -/
def snapSib : Snap :=
  [dirE ["top"] ["a", "f", "l"], dirE ["top", "a"] ["x", "y"], fileE ["top", "a", "x"],
   dirE ["top", "a", "y"] ["z"], fileE ["top", "a", "y", "z"], fileE ["top", "f"],
   linkE ["top", "l"] ["top", "a"] true]

/-- link to an ancestor (loop): /top: a/ (a/b/ (a/b/up -> /top, a/b/w), a/v), z -/
def snapUp : Snap :=
  [dirE ["top"] ["a", "z"], dirE ["top", "a"] ["b", "v"], dirE ["top", "a", "b"] ["up", "w"],
   linkE ["top", "a", "b", "up"] ["top"] true, fileE ["top", "a", "b", "w"], fileE ["top", "a", "v"],
   fileE ["top", "z"]]

/-- two-link cycle through siblings: /top/a/to_b -> /top/b, /top/b/to_a -> /top/a -/
def snapCyc : Snap :=
  [dirE ["top"] ["a", "b"], dirE ["top", "a"] ["f", "to_b"], fileE ["top", "a", "f"],
   linkE ["top", "a", "to_b"] ["top", "b"] true, dirE ["top", "b"] ["g", "to_a"], fileE ["top", "b", "g"],
   linkE ["top", "b", "to_a"] ["top", "a"] true]

/-- diamond: /top/l1 -> /top/d, /top/l2 -> /top/d, /top/d/m -> /top/e, /top/d/n -> /top/e (no loop;
    `e` is walked once directly and four times through links) -/
def snapDia : Snap :=
  [dirE ["top"] ["d", "e", "l1", "l2"], dirE ["top", "d"] ["m", "n", "q"],
   linkE ["top", "d", "m"] ["top", "e"] true, linkE ["top", "d", "n"] ["top", "e"] true,
   fileE ["top", "d", "q"], dirE ["top", "e"] ["x"], fileE ["top", "e", "x"],
   linkE ["top", "l1"] ["top", "d"] true, linkE ["top", "l2"] ["top", "d"] true]

/-- names out of order after following: /top/a -> /x/zz, /top/b -> /x/cc (dirs), /top/c (file),
    /top/d -> /x/ff (link to file), /top/m/; two links with the same target name -/
def snapOrd : Snap :=
  [dirE ["top"] ["a", "b", "c", "d", "e", "m"], linkE ["top", "a"] ["x", "zz"] true,
   linkE ["top", "b"] ["x", "cc"] true, fileE ["top", "c"], linkE ["top", "d"] ["x", "ff"] false,
   linkE ["top", "e"] ["y", "cc"] true, dirE ["top", "m"] ["k"], fileE ["top", "m", "k"],
   dirE ["x", "zz"] ["r"], fileE ["x", "zz", "r"], dirE ["x", "cc"] ["s"], fileE ["x", "cc", "s"],
   fileE ["x", "ff"], dirE ["y", "cc"] ["t"], fileE ["y", "cc", "t"]]

/-- the root itself is a link: /r -> /top/a over the sibling tree; walk starts below the chain -/
def snapRootLink : Snap := linkE ["r"] ["top", "a"] true :: snapSib

/-- a link to a directory whose target is not in the snapshot, and a link to the root `/` -/
def snapMissing : Snap :=
  [dirE ["top"] ["a", "l"], fileE ["top", "a"], linkE ["top", "l"] ["gone"] true]

/-- re-entering the root of the walk through a real directory:
    /, /t/, /t/a/, /t/a/b/, /t/a/b/l -> / ; walk from /t (chain gets longer than the snapshot) -/
def snapDeep : Snap :=
  [dirE ["t"] ["a"], dirE [] ["t"], dirE ["t", "a"] ["b"], dirE ["t", "a", "b"] ["l"],
   linkE ["t", "a", "b", "l"] [] true]

def allOpts (follow : Bool) : List Opts := Id.run do
  let mut r := []
  for mn in [0, 1, 2, 3] do
    for mx in [0, 1, 2, 3, 5, 2 ^ 64 - 1] do
      for (d, f) in [(false, false), (true, false), (false, true)] do
        for sorted in [false, true] do
          for (df, ff) in [(false, false), (true, false), (false, true)] do
            for cf in [false, true] do
              for md in [0, 50] do
                r := { dirs := d, files := f, minDepth := mn, maxDepth := mx, maxDesc := md, follow := follow,
                       dirsFirst := df, filesFirst := ff, contentsFirst := cf, sorted := sorted : Opts } :: r
  return r

def bigFuel : Nat := 100000

def agree (snap : Snap) (o : Opts) : Bool :=
  modelRun snap o (rootOf snap) bigFuel == specRun snap o (rootOf snap)

/-- the option domain of the exactness theorems (as `ExactDom` but with `follow`) -/
def inDomain (o : Opts) : Bool :=
  (o.sorted || (!o.dirsFirst && !o.filesFirst)) &&
    ((!o.contentsFirst) || (!o.dirs && !o.files && o.minDepth == 0))

/-- (combinations, mismatches inside the option domain, mismatches outside) -/
def report (snap : Snap) (follow : Bool) : Nat × Nat × Nat :=
  let os := allOpts follow
  (os.length, (os.filter (fun o => inDomain o && !agree snap o)).length,
   (os.filter (fun o => !inDomain o && !agree snap o)).length)

def okIn (snap : Snap) : Bool := (report snap true).2.1 == 0 && (report snap false).2.1 == 0

/-- `follow = false`: the new spec is the old one -/
def coincides (snap : Snap) : Bool :=
  (allOpts false).all fun o => entriesSpecF snap o (rootOf snap) == (entriesSpec snap o (rootOf snap), none)

#eval report snapSib true
#eval report snapUp true
#eval report snapCyc true
#eval report snapDia true
#eval report snapOrd true
#eval report snapRootLink true
#eval report snapMissing true
#eval report snapDeep true

#guard okIn snapSib
#guard okIn snapUp
#guard okIn snapCyc
#guard okIn snapDia
#guard okIn snapOrd
#guard okIn snapRootLink
#guard okIn snapMissing
#guard okIn snapDeep

#guard coincides snapSib
#guard coincides snapUp
#guard coincides snapCyc
#guard coincides snapDia
#guard coincides snapOrd
#guard coincides snapMissing
#guard coincides snapDeep

/-! concrete expectations (paths only) -/

def paths (r : WalkRes) : List (List String) × Option ErrKind :=
  (r.1.map (fun e => e.path.map String.ofList), r.2)

def fo : Opts := { follow := true, sorted := true }

-- link to a sibling directory: the link is presented as its target and its contents are walked again
#guard paths (entriesSpecF snapSib fo (rootOf snapSib)) ==
  ([["top"], ["top", "a"], ["top", "a", "x"], ["top", "a", "y"], ["top", "a", "y", "z"],
    ["top", "a"], ["top", "a", "x"], ["top", "a", "y"], ["top", "a", "y", "z"], ["top", "f"]], none)

-- link to an ancestor: LinkLooping, what was yielded before stays
#guard paths (entriesSpecF snapUp fo (rootOf snapUp)) ==
  ([["top"], ["top", "a"], ["top", "a", "b"]], some .linkLooping)

-- ... with contents_first the open directories are never yielded
#guard paths (entriesSpecF snapUp { fo with contentsFirst := true } (rootOf snapUp)) == ([], some .linkLooping)

-- two-link cycle, listing order: a, a/f, (to_b =) b, b/g, (to_a =) a is open: LinkLooping
#guard paths (entriesSpecF snapCyc { fo with sorted := false } (rootOf snapCyc)) ==
  ([["top"], ["top", "a"], ["top", "a", "f"], ["top", "b"], ["top", "b", "g"]], some .linkLooping)
-- sorted by the presented names: in a: (to_b =) b < f; in b: (to_a =) a < g
#guard paths (entriesSpecF snapCyc fo (rootOf snapCyc)) ==
  ([["top"], ["top", "a"], ["top", "b"]], some .linkLooping)

-- the loop check does not look at the depth limit: at `max_depth` the link would not be entered
#guard paths (entriesSpecF snapUp { fo with maxDepth := 3 } (rootOf snapUp)) ==
  ([["top"], ["top", "a"], ["top", "a", "b"]], some .linkLooping)
#guard paths (entriesSpecF snapUp { fo with maxDepth := 2 } (rootOf snapUp)) ==
  ([["top"], ["top", "a"], ["top", "a", "b"], ["top", "a", "v"], ["top", "z"]], none)

-- diamond: e's contents once per followed link
#guard (paths (entriesSpecF snapDia fo (rootOf snapDia))).1.count ["top", "e", "x"] == 7
#guard (paths (entriesSpecF snapDia fo (rootOf snapDia))).2 == none

-- dirs filter, depth window
#guard paths (entriesSpecF snapSib { fo with dirs := true, minDepth := 1 } (rootOf snapSib)) ==
  ([["top", "a"], ["top", "a", "y"], ["top", "a"], ["top", "a", "y"]], none)
#guard paths (entriesSpecF snapSib { fo with maxDepth := 1 } (rootOf snapSib)) ==
  ([["top"], ["top", "a"], ["top", "a"], ["top", "f"]], none)

-- sorted by the names of the presented entries: c, cc (b), cc (e), ff (d), m, zz (a)
#guard paths (entriesSpecF snapOrd { fo with maxDepth := 1, minDepth := 1 } (rootOf snapOrd)) ==
  ([["top", "c"], ["x", "cc"], ["y", "cc"], ["x", "ff"], ["top", "m"], ["x", "zz"]], none)

-- missing target: DoesNotExist when the link is to be entered
#guard paths (entriesSpecF snapMissing fo (rootOf snapMissing)) == ([["top"], ["top", "a"]], some .doesNotExist)

-- the chain of open directories may repeat a real directory (here /t, /t/a, /t/a/b, /, /t, /t/a, /t/a/b)
#guard paths (entriesSpecF snapDeep fo (rootOf snapDeep)) ==
  ([["t"], ["t", "a"], ["t", "a", "b"], [], ["t"], ["t", "a"], ["t", "a", "b"]], some .linkLooping)

/-! diamond chain: the walk is exponential in the number of levels ("once per followed link") -/

/-- /top/d0 .. /top/dk; d_i = { m -> d_{i+1}, n -> d_{i+1} }, d_k = { x }; walked from /top/d0 -/
def diaChain (k : Nat) : Snap :=
  let dn (i : Nat) : String := "d" ++ toString i
  let dirs := (List.range k).flatMap fun i =>
    [dirE ["top", dn i] ["m", "n"], linkE ["top", dn i, "m"] ["top", dn (i + 1)] true,
     linkE ["top", dn i, "n"] ["top", dn (i + 1)] true]
  dirs ++ [dirE ["top", dn k] ["x"], fileE ["top", dn k, "x"]]

/-- (snapshot entries, `travFuel`, entries the spec yields, spec error, what `collectEntries` says) -/
def diaReport (k : Nat) : Nat × Nat × Nat × Option ErrKind × String :=
  let snap := diaChain k
  let r := entriesSpecF snap fo (rootOf snap)
  (snap.length, travFuel snap, r.1.length, r.2,
   match collectEntries snap fo (rootOf snap) with
   | .ok l => if l == r.1 then "ok, equal" else "ok, DIFFERENT"
   | .hang => "hang" | .err _ => "err" | .panic => "panic")

#eval diaReport 4
#eval diaReport 10
#guard decide (SnapWf (diaChain 10))
#guard (diaReport 10).2.2.1 == 3 * 2 ^ 10 - 1
#guard (diaReport 10).2.2.2.2 == "ok, equal"
-- `#eval diaReport 15` = (47, 153664, 98303, none, "ok, equal")
-- `#eval diaReport 16` = (50, 173056, 196607, none, "hang")   (about a minute to evaluate)
-- i.e. with 16 levels (50 snapshot entries) the walk has 3·2^16 − 1 entries, more than the model's
-- `travFuel`: the model reports `.hang` although the traversal is finite.

/-! ### snapshots produced by the model itself (`run` + `entriesOf`): `_clone_entries` adds the
     targets of links that exist, also outside the subtree -/

def env0 : Env := fun v => if v = "HOME".toList then some "/home/u".toList else none

def hist : List Op := [.mkdirP (s "/a/b/c"), .mkfile (s "/a/x"), .mkfile (s "/a/b/y"), .mkdirP (s "/d/q"),
  .symlink (s "/a/l") (s "/d"), .symlink (s "/a/b/m") (s "/a/x"), .mkfile (s "/d/z"), .symlink (s "/a/0") (s "/a/b"),
  .mkdirP (s "/a/b/c/e"), .symlink (s "/a/b/c/1") (s "/a/b/c/e"), .mkfile (s "/a/b/c/e/f"),
  .symlink (s "/d/q/back") (s "/d"), .symlink (s "/d/up") (s "/a/b/c"), .mkdirP (s "/g/h"),
  .symlink (s "/g/h/i") (s "/g"), .symlink (s "/g/dangling") (s "/nowhere")]

def st : State := run env0 init hist

/-- for the subtree at `a`: snapshot size, `SnapWf`, `InSnap`, `TargetsIn`, and the number of option
    combinations (inside the option domain) on which the machine and the spec disagree, with
    `follow = true` and with `follow = false` -/
def stateReport (a : List String) : String :=
  let k := p a
  match entriesOf st k with
  | .ok (r, snap) =>
    let bad (fol : Bool) := ((allOpts fol).filter (fun o => inDomain o &&
      !(modelRun snap o r bigFuel == specRun snap o r))).length
    s!"snap {snap.length} SnapWf {decide (SnapWf snap)} InSnap {decide (InSnap snap r)} TargetsIn {decide (TargetsIn snap)} mismatches follow {bad true} no-follow {bad false} spec(follow,sorted) {repr (paths (entriesSpecF snap fo r))}"
  | _ => "entriesOf failed"

#eval stateReport []
#eval stateReport ["a"]
#eval stateReport ["a", "b"]
#eval stateReport ["d"]
#eval stateReport ["g"]

def stateOk (a : List String) : Bool :=
  match entriesOf st (p a) with
  | .ok (r, snap) => decide (SnapWf snap) && decide (InSnap snap r) &&
      (allOpts true).all (fun o => !inDomain o || modelRun snap o r bigFuel == specRun snap o r)
  | _ => false

#guard stateOk []
#guard stateOk ["a"]
#guard stateOk ["a", "b"]
#guard stateOk ["d"]
#guard stateOk ["g"]

end Rivia.Spec.WalkFollowTest
