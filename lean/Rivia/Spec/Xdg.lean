/-
  Rivia.Spec.Xdg — the XDG lookups as the property text states them (C18), on plain strings.
  `none` = unspecified for this input (the check then only relies on the correspondence).
-/
import Rivia.Model.Path

namespace Rivia.Spec
open Rivia

def sv (s : String) : Str := s.toList

/-- `$XDG_*_HOME` when set, else `$HOME/<default>`; error when both are unset.
    Unspecified when `$HOME` is needed but empty or not in canonical form (no meaning to "under"). -/
def homeDirSpec (env : Env) (var : String) (dflt : String) : Option (Outcome Str) :=
  match env (sv var) with
  | some x => some (.ok x)
  | none =>
    match env (sv "HOME") with
    | none => some (.err .var)
    | some h =>
      if h = [] ∨ render (components h) ≠ h then none
      else some (.ok (if h = ['/'] then '/' :: sv dflt else h ++ '/' :: sv dflt))

def segmentsSpec (x : Str) : List Str := (Str.splitOn ':' x).filter (fun s => s ≠ [])

def listDirSpec (env : Env) (var : String) (dflt : List String) : List Str :=
  match env (sv var) with
  | some x => if segmentsSpec x = [] then dflt.map sv else segmentsSpec x
  | none => dflt.map sv

/-- first directory, in the order XDG_CONFIG_HOME (or its default) then XDG_CONFIG_DIRS, that
    contains `name`; the user directory is skipped when it cannot be determined -/
def vfsConfigDirSpec (env : Env) (ex : Str → Bool) (name : Str) : Option (Option Str) :=
  match homeDirSpec env "XDG_CONFIG_HOME" ".config" with
  | none => none
  | some c =>
    let user := match c with | .ok d => [d] | _ => []
    some ((user ++ listDirSpec env "XDG_CONFIG_DIRS" ["/etc/xdg"]).find? (fun d => ex (d ++ '/' :: name)))

def parseU32Spec (s : Str) : Option Nat :=
  let ds := match s with | '+' :: r => r | _ => s
  if ds ≠ [] ∧ ds.all (fun c => '0' ≤ c ∧ c ≤ '9') then
    let n := ds.foldl (fun acc c => 10 * acc + (c.toNat - '0'.toNat)) 0
    if n < 4294967296 then some n else none
  else none

/-- SUDO ids only when uid is 0 and both variables are numeric -/
def getridsSpec (env : Env) (uid gid : Nat) : Nat × Nat :=
  if uid = 0 then
    match (env (sv "SUDO_UID")).bind parseU32Spec, (env (sv "SUDO_GID")).bind parseU32Spec with
    | some u, some g => (u, g)
    | _, _ => (uid, gid)
  else (uid, gid)

end Rivia.Spec
