/-
  Rivia.Spec.Lists — plain list definitions the core helpers are compared with (C19).
-/
import Rivia.Model.Str
import Rivia.Model.Outcome

namespace Rivia.Spec
open Rivia

/-- `drop(n)`: remove the first `n` items for `n > 0`, the last `|n|` for `n < 0` -/
def dropSpec {α} (l : List α) (n : Int) : List α :=
  if n ≥ 0 then l.drop n.toNat else l.take (l.length - n.natAbs)

/-- `slice(left, right)` for `left ≥ -len`: the inclusive index range, negative indices counting
    from the end, a right bound beyond the end clamped; empty when the range is empty or out of
    bounds -/
def sliceSpec {α} (l : List α) (left right : Int) : List α :=
  let len : Int := l.length
  let lo : Int := if left < 0 then len + left else left
  let hi : Int := if right < 0 then len + right else min right (len - 1)
  if lo ≤ hi ∧ 0 ≤ lo then (l.drop lo.toNat).take (hi - lo + 1).toNat else []

def singleSpec {α} (l : List α) : Outcome α :=
  if l.length = 0 then .err .iterItemNotFound
  else if l.length = 1 then (match l.head? with | some a => .ok a | none => .err .iterItemNotFound)
  else .err .iterMultipleItemsFound

/-- `to_bool`: false exactly for "", "0" and any casing of "false" -/
def toBoolSpec (s : Str) : Bool :=
  !(s = [] || s = ['0'] || s.map Str.lowerChar = "false".toList)

/-- `trim_suffix`: remove exactly one trailing occurrence or nothing -/
def trimSuffixSpec' (s suf : Str) : Str :=
  if suf.isSuffixOf s then s.take (s.length - suf.length) else s

end Rivia.Spec
