/-
  Rivia.Spec.WalkFollow — what `entries()` has to yield when links may be followed (property C08,
  `follow = true`; for `follow = false` it coincides with `Spec.entriesSpec`).
  Written from the property text as a plain recursive walk over a snapshot; it knows nothing about
  the iterator's stacks.

  Result: the entries yielded, in order, and the error that ended the traversal (if any).

    walkF chain e depth        (`e` as it is presented: a link already switched to its target)
      * `e` is a followed link to a directory whose target is one of the directories currently
        being walked (`chain` = the paths of the open directories, innermost first):
        the traversal ends with `LinkLooping`; nothing more is yielded.
      * otherwise `e` itself is yielded when `min_depth ≤ depth` and the kind filter accepts it, and
        when it is a directory that is entered (a real directory, or a link to a directory when
        links are followed; above `max_depth`) the walks of its contents at `depth + 1`:
        the children listed by the snapshot under `e`'s (target) path, each presented
        (links switched to their targets), in the order the options prescribe.
        The entry comes before its contents, or after them with `contents_first`.
        An error below ends the traversal: what was yielded before stays, nothing after (in
        particular not the directories `contents_first` was holding back).
      * a followed link whose target directory is not in the snapshot cannot be listed: the
        traversal ends with `DoesNotExist` (what `iter_from` reports), before the link is yielded.

  The same target may be walked several times (once per followed link that leads to it); only a
  link back into the chain of open directories is an error.
-/
import Rivia.Spec.Walk

namespace Rivia.Spec
open Rivia Rivia.Memfs

/-- an entry as the traversal presents it: with `follow`, a link is switched to its target
    (`Entry::follow(true)`: `path` = target, `alt` = the link's own path) -/
def present (o : Opts) (e : Entry) : Entry := e.doFollow o.follow

/-- the entry is a link that has been switched to its target -/
def followed (o : Opts) (e : Entry) : Bool := o.follow && e.link

/-- the file name an entry is sorted by: the last component of its (presented) path; the root has
    none and sorts first (`Option<&OsStr>` order) -/
def fileName (e : Entry) : Option Str := e.path.getLast?

/-- `x.file_name().cmp(&y.file_name()) != Greater`, byte-wise (= code point) lexicographic -/
def nameLeq (a b : Entry) : Bool :=
  match fileName a, fileName b with
  | none, _ => true
  | some _, none => false
  | some x, some y => decide (x ≤ y)

/-- `sort_by_name`: the presented entries by their own file names (stable: entries with equal
    names, e.g. two links to directories of the same name, keep the listing order).
    Without `sort_by_name` the order is the one in which the snapshot lists them. -/
def orderEntries (o : Opts) (es : List Entry) : List Entry :=
  if o.sorted then es.mergeSort nameLeq else es

/-- the names a directory entry lists: its own child names, or for a followed link the child
    names of the snapshot's entry at the target path (`none`: target not in the snapshot) -/
def listingNames (snap : Snap) (o : Opts) (e : Entry) : Option (List Str) :=
  if followed o e then (alLookup e.path snap).map (fun t => t.files.getD [])
  else some (e.files.getD [])

/-- the contents of the (entered) directory `e`: the listed children present in the snapshot under
    `e`'s (target) path, presented, in the order the options prescribe -/
def childrenF (snap : Snap) (o : Opts) (e : Entry) : Option (List Entry) :=
  (listingNames snap o e).map fun ns =>
    groupKinds o (orderEntries o ((ns.filterMap (fun n => alLookup (e.path ++ [n]) snap)).map (present o)))

/-- directories that are entered: real directories, and links to directories when followed;
    only above the depth limit -/
def entersF (o : Opts) (e : Entry) (depth : Nat) : Bool :=
  e.dir && (!e.link || o.follow) && decide (depth < o.maxDepth)

/-- a followed link to a directory that leads back into the chain of open directories -/
def loopsF (o : Opts) (chain : List FsPath) (e : Entry) : Bool :=
  followed o e && e.dir && chain.contains e.path

abbrev WalkRes := List Entry × Option ErrKind

/-- walk the siblings one after the other; the first error ends everything -/
def seqF (f : Entry → WalkRes) : List Entry → WalkRes
  | [] => ([], none)
  | c :: cs =>
    match f c with
    | (ys, some k) => (ys, some k)
    | (ys, none) => let r := seqF f cs; (ys ++ r.1, r.2)

/-- the recursive walk; `chain` = paths of the directories currently being walked (innermost
    first); `fuel` bounds the recursion depth (`fuelF` is always enough: a link is only entered
    when its target is not in the chain, real children strictly extend the path) -/
def walkF (snap : Snap) (o : Opts) : Nat → List FsPath → Entry → Nat → WalkRes
  | 0, _, _, _ => ([], none)
  | fuel + 1, chain, e, depth =>
    if loopsF o chain e then ([], some .linkLooping)
    else
      let self := if selected o e depth then [e] else []
      if entersF o e depth then
        match childrenF snap o e with
        | none => ([], some .doesNotExist)
        | some kids =>
          match seqF (fun c => walkF snap o fuel (e.path :: chain) c (depth + 1)) kids with
          | (below, some k) => (if o.contentsFirst && e.dir then below else self ++ below, some k)
          | (below, none) => (if o.contentsFirst && e.dir then below ++ self else self ++ below, none)
      else (self, none)

/-- recursion depth bound: between two link steps the path strictly grows inside the snapshot,
    and every entered link adds a snapshot key to the chain that was not there -/
def fuelF (snap : Snap) : Nat := (snap.length + 1) * (snap.length + 1) + 1

/-- what iterating `entries(root)` with options `o` over the snapshot must yield, and the error
    that ends the iteration (if any) -/
def entriesSpecF (snap : Snap) (o : Opts) (rootE : Entry) : WalkRes :=
  walkF snap o (fuelF snap) [] (present o rootE) 0

/-- Well-formedness for followed links (decidable): every link to a directory has its target
    directory in the snapshot (what `_clone_entries` provides for targets that exist).
    NOT needed for the spec itself (a missing target is `DoesNotExist`); a convenience domain. -/
def TargetsIn (snap : Snap) : Prop :=
  ∀ kv ∈ snap, kv.2.link = true → kv.2.dir = true → (alLookup (kv.2.alt.getD []) snap).isSome = true

instance (snap : Snap) : Decidable (TargetsIn snap) := by unfold TargetsIn; infer_instance

end Rivia.Spec
