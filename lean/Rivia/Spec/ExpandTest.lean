/-
  Rivia.Spec.ExpandTest — TEST (not a proof, not imported by any Props file).

  Exhaustive comparison of the specification `expandSpec` with the model `expand` over all
  strings of length ≤ 5 over the alphabet  a / ~ $ { }  in several environments.
  Every disagreement is classified:
    * finding   : some normal component is in the trailing-'$' class (`TrailingDollar`),
    * ambiguous : some normal component is `Ambiguous` (unspecified by the property text),
    * errkind   : both fail, the specification with `InvalidExpansion` for a malformed component,
                  the code with `Var` because it meets an unset variable of the same component
                  first (the property text does not order the reasons),
    * other     : anything else — MUST be 0.
-/
import Rivia.Spec.Expand

namespace Rivia.Spec.ExpandTest
open Rivia Rivia.Spec

def alphabet : List Char := ['a', '/', '~', '$', '{', '}']

def strings : Nat → List Str
  | 0 => [[]]
  | n + 1 => (strings n).flatMap fun s => alphabet.map fun c => c :: s

def allStrings : List Str := (List.range 6).flatMap strings

def mkEnv (l : List (String × String)) : Env := fun k =>
  (l.find? fun kv => kv.1.toList == k).map fun kv => kv.2.toList

def envs : List (String × Env) := [
  ("HOME=/h",              mkEnv [("HOME", "/h")]),
  ("(empty)",              mkEnv []),
  ("a=v",                  mkEnv [("a", "v")]),
  ("HOME=/h,a=/abs",       mkEnv [("HOME", "/h"), ("a", "/abs")]),
  ("HOME=/h$a,a=w",        mkEnv [("HOME", "/h$a"), ("a", "w")]),
  ("HOME=h/$,a=",          mkEnv [("HOME", "h/$"), ("a", "")]),
  ("HOME=/h,a=v,a{=x,{a=y,aa=z", mkEnv [("HOME", "/h"), ("a", "v"), ("a{", "x"), ("{a", "y"), ("aa", "z")])]

inductive Cls | agree | finding | ambiguous | errkind | other
  deriving DecidableEq, Repr

def normals (p : Str) : List Str :=
  (components p).filterMap fun c => match c with | .normal y => some y | _ => none

def isErr {α} : Outcome α → Bool
  | .err _ => true
  | _ => false

def classify (env : Env) (s : Str) : Cls :=
  let m := expand env s
  let sp := expandSpec env s
  if m = sp then .agree
  else match tildeSpec env s with
    | .ok p =>
      if (normals p).any Ambiguous then .ambiguous
      else if (normals p).any TrailingDollar then .finding
      else if sp = .err .invalidExpansion ∧ m = .err .var ∧
              (normals p).any (fun y => (parseComp y).isNone) then .errkind
      else .other
    | _ => .other

def count (c : Cls) : Nat :=
  envs.foldl (fun n e => n + (allStrings.filter fun s => classify e.2 s = c).length) 0

def shw (s : Str) : String := String.ofList s
def showO : Outcome Str → String
  | .ok a => "ok " ++ String.ofList a
  | .err k => "err " ++ k.name
  | .panic => "panic"
  | .hang => "hang"

def samples (c : Cls) (n : Nat) : List String :=
  (envs.flatMap fun e => ((allStrings.filter fun s => classify e.2 s = c).take n).map fun s =>
    s!"[{e.1}] {shw s}: code {showO (expand e.2 s)} / spec {showO (expandSpec e.2 s)}")

/-- inside the domain `D` of `C17_vars_partial` there is no disagreement at all -/
def inDDisagree : Nat :=
  envs.foldl (fun n e => n + (allStrings.filter fun s => D e.2 s ∧ expand e.2 s ≠ expandSpec e.2 s).length) 0

/-- inside the wider domain `DErr` the only disagreement is the error kind -/
def inDErrDisagree : Nat :=
  envs.foldl (fun n e => n + (allStrings.filter fun s =>
    DErr e.2 s ∧ expand e.2 s ≠ expandSpec e.2 s ∧ ¬ (isErr (expand e.2 s) ∧ isErr (expandSpec e.2 s))).length) 0

#eval s!"strings: {allStrings.length} x envs: {envs.length}"
#eval s!"agree={count .agree} finding={count .finding} ambiguous={count .ambiguous} errkind={count .errkind}"
#eval samples .finding 3
#eval samples .ambiguous 4
#eval samples .errkind 3
#eval samples .other 20
#eval s!"disagreements inside D: {inDDisagree}; non-error-kind disagreements inside DErr: {inDErrDisagree}"
-- THE number that must be 0: disagreements outside the finding / ambiguous / error-kind classes
#eval s!"disagreements outside the recorded classes (must be 0): {count .other}"
#guard count .other == 0
#guard inDDisagree == 0
#guard inDErrDisagree == 0

end Rivia.Spec.ExpandTest
