/-
  Rivia.WalkCfTest — TEST (not a proof): mismatch classes of `contents_first` between the model's
  stack machine and the specification walks, over the option cross-products of
  Spec/WalkTest.lean (follow = false) and Spec/WalkFollowTest.lean (follow = true).

  Classes (all with `contents_first`, ordering flags inside `OrdOk`):
    F  = kind filter (`dirs()` or `files()`), `min_depth = 0`   (finding contents_first_ignores_filter)
    M  = `min_depth > 0`, no kind filter                         (finding contents_first_min_depth_order)
    FM = `min_depth > 0` and a kind filter
  Each `#eval` prints, per snapshot: (|F|, mismatches in F, |M|, mismatches in M, |FM|, mismatches in FM).
-/
import Rivia.Spec.WalkTest
import Rivia.Spec.WalkFollowTest

namespace Rivia.WalkCfTest
open Rivia Rivia.Memfs Rivia.Spec

def ord (o : Opts) : Bool := o.sorted || (!o.dirsFirst && !o.filesFirst)
def clsF (o : Opts) : Bool := o.contentsFirst && ord o && (o.dirs || o.files) && o.minDepth == 0
def clsM (o : Opts) : Bool := o.contentsFirst && ord o && !(o.dirs || o.files) && o.minDepth != 0
def clsFM (o : Opts) : Bool := o.contentsFirst && ord o && (o.dirs || o.files) && o.minDepth != 0

def count (os : List Opts) (agree : Opts → Bool) : Nat × Nat × Nat × Nat × Nat × Nat :=
  ((os.filter clsF).length, (os.filter (fun o => clsF o && !agree o)).length,
   (os.filter clsM).length, (os.filter (fun o => clsM o && !agree o)).length,
   (os.filter clsFM).length, (os.filter (fun o => clsFM o && !agree o)).length)

def reportNF (snap : Snap) := count WalkTest.allOpts (WalkTest.agree snap)
def reportF (snap : Snap) := count (WalkFollowTest.allOpts true) (WalkFollowTest.agree snap)

/-- all mismatches inside `OrdOk` (any `contents_first`, depth window, filter): must be 0 after both repairs -/
def insideOrd (os : List Opts) (agree : Opts → Bool) : Nat := (os.filter (fun o => ord o && !agree o)).length

#eval ([WalkTest.snap1, WalkTest.snap2, WalkTest.snap3, WalkTest.snap4].map
  (fun sn => insideOrd WalkTest.allOpts (WalkTest.agree sn)),
  [WalkFollowTest.snapSib, WalkFollowTest.snapUp, WalkFollowTest.snapCyc, WalkFollowTest.snapDia,
   WalkFollowTest.snapOrd, WalkFollowTest.snapRootLink, WalkFollowTest.snapMissing, WalkFollowTest.snapDeep].map
  (fun sn => insideOrd (WalkFollowTest.allOpts true) (WalkFollowTest.agree sn)))

-- follow = false
#eval reportNF WalkTest.snap1
#eval reportNF WalkTest.snap2
#eval reportNF WalkTest.snap3
#eval reportNF WalkTest.snap4
-- follow = true
#eval reportF WalkFollowTest.snapSib
#eval reportF WalkFollowTest.snapUp
#eval reportF WalkFollowTest.snapCyc
#eval reportF WalkFollowTest.snapDia
#eval reportF WalkFollowTest.snapOrd
#eval reportF WalkFollowTest.snapRootLink
#eval reportF WalkFollowTest.snapMissing
#eval reportF WalkFollowTest.snapDeep

end Rivia.WalkCfTest
