/-
  Driver.Util — line protocol helpers (hex transport, result rendering). Import-free of Mathlib.
-/
import Rivia.Model.Str
import Rivia.Model.Outcome

namespace Driver
open Rivia

def hexDigit (n : Nat) : Char :=
  if n < 10 then Char.ofNat (48 + n) else Char.ofNat (87 + n)

def hexOfBytes (b : ByteArray) : String :=
  String.ofList (b.toList.flatMap fun x => [hexDigit (x.toNat / 16), hexDigit (x.toNat % 16)])

def hexVal (c : Char) : Option Nat :=
  if '0' ≤ c ∧ c ≤ '9' then some (c.toNat - 48)
  else if 'a' ≤ c ∧ c ≤ 'f' then some (c.toNat - 87)
  else if 'A' ≤ c ∧ c ≤ 'F' then some (c.toNat - 55)
  else none

def bytesOfHexAux : List Char → ByteArray → Option ByteArray
  | [], acc => some acc
  | [_], _ => none
  | a :: b :: rest, acc =>
    match hexVal a, hexVal b with
    | some x, some y => bytesOfHexAux rest (acc.push (UInt8.ofNat (x * 16 + y)))
    | _, _ => none

def bytesOfHex (s : String) : Option ByteArray := bytesOfHexAux s.toList ByteArray.empty

/-- hex of the UTF-8 encoding of a model string -/
def hexOfStr (s : Str) : String := hexOfBytes (String.ofList s).toUTF8

/-- decode an `x<hex>` argument into a model string; `none` on malformed hex / invalid UTF-8 -/
def strOfArg (a : String) : Option Str :=
  match a.toList with
  | 'x' :: h =>
    match bytesOfHex (String.ofList h) with
    | some b => (String.fromUTF8? b).map (·.toList)
    | none => none
  | _ => none

def bytesOfArg (a : String) : Option (List UInt8) :=
  match a.toList with
  | 'x' :: h => (bytesOfHex (String.ofList h)).map (·.toList)
  | _ => none

def hexOfByteList (l : List UInt8) : String := hexOfBytes ⟨l.toArray⟩

def intOfArg (a : String) : Option Int := a.toInt?
def natOfArg (a : String) : Option Nat := a.toNat?

def showOutcome {α} (f : α → String) : Outcome α → String
  | .ok a => "ok " ++ f a
  | .err k => "err " ++ k.name
  | .panic => "panic"
  | .hang => "hang"

def showStr (s : Str) : String := "s:" ++ hexOfStr s
def showBool (b : Bool) : String := if b then "b:1" else "b:0"
def showList (l : List Str) : String := "l:" ++ String.intercalate "," (l.map hexOfStr)
def showNat (n : Nat) : String := "n:" ++ toString n

def showOptStr : Option Str → String
  | some s => "ok " ++ showStr s
  | none => "panic"

/-- parse an environment spec `eNAME=hex,NAME=hex` (just `e` for the empty environment) -/
def envOfArg (a : String) : Option (List (Str × Str)) :=
  match a.toList with
  | 'e' :: rest =>
    let body := String.ofList rest
    if body.isEmpty then some []
    else (body.splitOn ",").mapM fun kv =>
      match kv.splitOn "=" with
      | [k, v] => (strOfArg ("x" ++ v)).map (fun v' => (k.toList, v'))
      | _ => none
  | _ => none

def envLookup (e : List (Str × Str)) : Str → Option Str :=
  fun k => (e.find? (fun kv => kv.1 == k)).map (fun kv => kv.2)

end Driver
