import Driver.Util
import Rivia.Model.Path
import Rivia.Spec.GoClean

namespace Driver
open Rivia

def line3 (m s c : String) : String := m ++ "\t" ++ s ++ "\t" ++ c

def okStr (s : Str) : String := "ok " ++ showStr s
def okBool (b : Bool) : String := "ok " ++ showBool b

/-- One request → "model \t spec \t class".  `-` = no functional spec / in-domain. -/
def pathFn (fn : String) (args : List String) : Option String :=
  match fn, args with
  | "clean", [a] => do
    let s ← strOfArg a
    pure (line3 (showOptStr (cleanO s)) (okStr (Spec.goClean s)) "-")
  | "base", [a] => do let s ← strOfArg a; pure (line3 (showOutcome showStr (base s)) "-" "-")
  | "last", [a] => do let s ← strOfArg a; pure (line3 (showOutcome showStr (last s)) "-" "-")
  | "first", [a] => do let s ← strOfArg a; pure (line3 (showOutcome showStr (first s)) "-" "-")
  | "name", [a] => do let s ← strOfArg a; pure (line3 (showOutcome showStr (name s)) "-" "-")
  | "ext", [a] => do let s ← strOfArg a; pure (line3 (showOutcome showStr (ext s)) "-" "-")
  | "dir", [a] => do let s ← strOfArg a; pure (line3 (showOutcome showStr (dir s)) "-" "-")
  | "trim_ext", [a] => do let s ← strOfArg a; pure (line3 (showOutcome showStr (trimExt s)) "-" "-")
  | "trim_first", [a] => do let s ← strOfArg a; pure (line3 (okStr (trimFirst s)) "-" "-")
  | "trim_last", [a] => do let s ← strOfArg a; pure (line3 (okStr (trimLast s)) "-" "-")
  | "trim_protocol", [a] => do let s ← strOfArg a; pure (line3 (okStr (trimProtocol s)) "-" "-")
  | "is_empty", [a] => do let s ← strOfArg a; pure (line3 (okBool (isEmpty s)) "-" "-")
  | "parse_paths", [a] => do let s ← strOfArg a; pure (line3 ("ok " ++ showList (parsePaths s)) "-" "-")
  | "concat", [a, b] => do let s ← strOfArg a; let t ← strOfArg b; pure (line3 (okStr (concat s t)) "-" "-")
  | "mash", [a, b] => do let s ← strOfArg a; let t ← strOfArg b; pure (line3 (okStr (mash s t)) "-" "-")
  | "has", [a, b] => do let s ← strOfArg a; let t ← strOfArg b; pure (line3 (okBool (has s t)) "-" "-")
  | "has_prefix", [a, b] => do let s ← strOfArg a; let t ← strOfArg b; pure (line3 (okBool (hasPrefix s t)) "-" "-")
  | "has_suffix", [a, b] => do let s ← strOfArg a; let t ← strOfArg b; pure (line3 (okBool (hasSuffix s t)) "-" "-")
  | "trim_prefix", [a, b] => do let s ← strOfArg a; let t ← strOfArg b; pure (line3 (showOptStr (trimPrefix s t)) "-" "-")
  | "trim_suffix", [a, b] => do let s ← strOfArg a; let t ← strOfArg b; pure (line3 (showOptStr (trimSuffix s t)) "-" "-")
  | "relative", [a, b] => do let s ← strOfArg a; let t ← strOfArg b; pure (line3 (okStr (relative s t)) "-" "-")
  | "expand", [a, e] => do
    let s ← strOfArg a; let env ← envOfArg e
    pure (line3 (showOutcome showStr (expand (envLookup env) s)) "-" "-")
  | "abs_memfs", [c, a, e] => do
    let cwd ← strOfArg c; let s ← strOfArg a; let env ← envOfArg e
    pure (line3 (showOutcome showStr (absWith (envLookup env) cwd s)) "-" "-")
  | _, _ => none

end Driver
