import Driver.Util
import Rivia.Model.Path
import Rivia.Spec.GoClean
import Rivia.Spec.PathLaws
import Rivia.Spec.Expand
import Rivia.Lemmas.Expand

namespace Driver
open Rivia

def line3 (m s c : String) : String := m ++ "\t" ++ s ++ "\t" ++ c

def okStr (s : Str) : String := "ok " ++ showStr s
def okComps (cs : List Comp) : String := "ok " ++ showList (cs.map Comp.str)
def hasMultiByte (s : Str) : Bool := s.any (fun c => c.utf8Size ≠ 1)
/-- class of the known `trim_ext` defect: an extension exists but the string does not end with it -/
def trimExtClass (s : Str) : String :=
  match extension s, fileName s with
  | some _, some n => if n.isSuffixOf s then "-" else "trim_ext_trailing_sep"
  | _, _ => "-"
def commonLen : List Str → List Str → Nat
  | a :: as, b :: bs => if a = b then commonLen as bs + 1 else 0
  | _, _ => 0
def okBool (b : Bool) : String := "ok " ++ showBool b

/-- One request → "model \t spec \t class".  `-` = no functional spec / in-domain. -/
def pathFn (fn : String) (args : List String) : Option String :=
  match fn, args with
  | "clean", [a] => do
    let s ← strOfArg a
    pure (line3 (showOptStr (cleanO s)) (okStr (Spec.goClean s)) "-")
  | "base", [a] => do let s ← strOfArg a; pure (line3 (showOutcome showStr (base s)) (showOutcome showStr (Outcome.ofOption .iterItemNotFound ((components s).getLast?.map Comp.str))) "-")
  | "last", [a] => do let s ← strOfArg a; pure (line3 (showOutcome showStr (last s)) "-" "-")
  | "first", [a] => do let s ← strOfArg a; pure (line3 (showOutcome showStr (first s)) (showOutcome showStr (Outcome.ofOption .iterItemNotFound ((components s).head?.map Comp.str))) "-")
  | "name", [a] => do
    let s ← strOfArg a
    let cls := if trimExtClass s ≠ "-" then trimExtClass s
      else if Spec.nameSpec s = .ok ['.'] ∧ (components s).length ≥ 2 then "name_stem_is_dot" else "-"
    pure (line3 (showOutcome showStr (name s)) (showOutcome showStr (Spec.nameSpec s)) cls)
  | "law_trim_ext", [a] => do
    let s ← strOfArg a
    let m := match ext s, trimExt s with
      | .ok e, .ok t => okBool (Spec.trimExtLaw s t e)
      | .ok _, .panic => "panic"
      | _, _ => okBool true
    pure (line3 m (okBool true) (trimExtClass s))
  | "dir_c", [a] => do
    let s ← strOfArg a
    pure (line3 (showOutcome (fun x => showList ((components x).map Comp.str)) (dir s))
      (match components s with
        | [] => "err ParentNotFound"
        | cs => if cs.getLast? = some .root then "err ParentNotFound" else okComps cs.dropLast) "-")
  | "trim_first_c", [a] => do let s ← strOfArg a; pure (line3 (okComps (components (trimFirst s))) (okComps (components s).tail) "-")
  | "trim_last_c", [a] => do let s ← strOfArg a; pure (line3 (okComps (components (trimLast s))) (okComps (components s).dropLast) "-")
  | "ext", [a] => do let s ← strOfArg a; pure (line3 (showOutcome showStr (ext s)) "-" "-")
  | "dir", [a] => do let s ← strOfArg a; pure (line3 (showOutcome showStr (dir s)) "-" "-")
  | "trim_ext", [a] => do let s ← strOfArg a; pure (line3 (showOutcome showStr (trimExt s)) "-" "-")
  | "trim_first", [a] => do let s ← strOfArg a; pure (line3 (okStr (trimFirst s)) "-" "-")
  | "trim_last", [a] => do let s ← strOfArg a; pure (line3 (okStr (trimLast s)) "-" "-")
  | "trim_protocol", [a] => do let s ← strOfArg a; pure (line3 (okStr (trimProtocol s)) (okStr (Spec.trimProtocolSpec s)) "-")
  | "is_empty", [a] => do let s ← strOfArg a; pure (line3 (okBool (isEmpty s)) (okBool (decide (s = []))) "-")
  | "parse_paths", [a] => do let s ← strOfArg a; pure (line3 ("ok " ++ showList (parsePaths s)) ("ok " ++ showList (Spec.parsePathsSpec s)) "-")
  | "concat", [a, b] => do let s ← strOfArg a; let t ← strOfArg b; pure (line3 (okStr (concat s t)) (okStr (s ++ t)) "-")
  | "mash", [a, b] => do let s ← strOfArg a; let t ← strOfArg b; pure (line3 (okStr (mash s t)) (okStr (Spec.mashSpec s t)) "-")
  | "has", [a, b] => do let s ← strOfArg a; let t ← strOfArg b; pure (line3 (okBool (has s t)) (okBool (Str.contains s t)) "-")
  | "has_prefix", [a, b] => do let s ← strOfArg a; let t ← strOfArg b; pure (line3 (okBool (hasPrefix s t)) (okBool (t.isPrefixOf s)) "-")
  | "has_suffix", [a, b] => do let s ← strOfArg a; let t ← strOfArg b; pure (line3 (okBool (hasSuffix s t)) (okBool (t.isSuffixOf s)) "-")
  | "trim_prefix", [a, b] => do let s ← strOfArg a; let t ← strOfArg b; pure (line3 (showOptStr (trimPrefixO s t)) (okStr (Spec.trimPrefixSpec s t)) "-")
  | "trim_suffix", [a, b] => do let s ← strOfArg a; let t ← strOfArg b; pure (line3 (showOptStr (trimSuffixO s t)) (okStr (Spec.trimSuffixSpec s t)) "-")
  | "relative", [a, b] => do let s ← strOfArg a; let t ← strOfArg b; pure (line3 (okStr (relative s t)) "-" "-")
  | "relnav", [a, b] => do
    let p ← strOfArg a; let bb ← strOfArg b
    let r := relative p bb
    let nav := match cleanO (push bb r) with | some x => x | none => []
    -- spec (for clean absolute p, b): `..` per component of b below the common prefix, then the
    -- components of p below it; and the navigation must end at p
    let ps := (splitSlash p).filter (· ≠ []); let bs := (splitSlash bb).filter (· ≠ [])
    let k := commonLen ps bs
    let shape := if ps = bs then p else Str.joinWith '/' (List.replicate (bs.length - k) ['.', '.'] ++ ps.drop k)
    pure (line3 ("ok " ++ showList [r, nav]) ("ok " ++ showList [shape, p]) "-")
  | "expand", [a, e] => do
    let s ← strOfArg a; let env ← envOfArg e
    let en := envLookup env
    -- spec (C17): inside D the exact result; inside DSpec (no component `Ambiguous`; a component
    -- that ends in a bare `$` is inside and has to fail) the same result or both fail (the order
    -- of failure reasons is not pinned down); `Ambiguous` components are unspecified
    let sp := Spec.expandSpec en s
    let (spc, cls) : String × String :=
      if Spec.D en s then (showOutcome showStr sp, "-")
      else if Rivia.Lemmas.Expand.DSpec en s then ((match sp with | .ok x => okStr x | _ => "err *"), "-")
      else ("-", "-")
    pure (line3 (showOutcome showStr (expand en s)) spc cls)
  | "abs_memfs", [c, a, e] => do
    let cwd ← strOfArg c; let s ← strOfArg a; let env ← envOfArg e
    -- spec (C05): lexical join of the expanded, protocol-trimmed argument onto cwd, Go-cleaned;
    -- ParentNotFound iff the relative argument climbs above the root
    let sp : String :=
      if s = [] then "err Empty"
      else match expand (envLookup env) s with
        | .ok e =>
          let x := Spec.goClean (trimProtocol e)
          let ups := ((splitSlash x).takeWhile (· == ['.', '.'])).length
          let depth := ((splitSlash cwd).filter (· ≠ [])).length
          if !isRooted x ∧ ups > depth then "err ParentNotFound"
          else okStr (Spec.goClean (push cwd (trimProtocol e)))
        | .err k => "err " ++ k.name
        | _ => "-"
    pure (line3 (showOutcome showStr (absWith (envLookup env) cwd s)) sp "-")
  | _, _ => none

end Driver
