import Driver.MemfsFn
import Rivia.Model.Macros

namespace Driver
open Rivia Rivia.Memfs Rivia.Macros

def parseMacro (args : List String) : Option MacroCall :=
  match args with
  | ["exists", a] => do let p ← strOfArg a; pure (.exists p)
  | ["no_exists", a] => do let p ← strOfArg a; pure (.noExists p)
  | ["is_dir", a] => do let p ← strOfArg a; pure (.isDir p)
  | ["no_dir", a] => do let p ← strOfArg a; pure (.noDir p)
  | ["is_file", a] => do let p ← strOfArg a; pure (.isFile p)
  | ["no_file", a] => do let p ← strOfArg a; pure (.noFile p)
  | ["is_symlink", a] => do let p ← strOfArg a; pure (.isSymlink p)
  | ["no_symlink", a] => do let p ← strOfArg a; pure (.noSymlink p)
  | ["read_all", a, d] => do let p ← strOfArg a; let x ← strOfArg d; pure (.readAll p x)
  | ["readlink", a, d] => do let p ← strOfArg a; let x ← strOfArg d; pure (.readlink p x)
  | ["readlink_abs", a, d] => do let p ← strOfArg a; let x ← strOfArg d; pure (.readlinkAbs p x)
  | ["mkdir_p", a] => do let p ← strOfArg a; pure (.mkdirP p)
  | ["mkdir_m", a, m] => do let p ← strOfArg a; let mode ← octArg m; pure (.mkdirM p mode)
  | ["mkfile", a] => do let p ← strOfArg a; pure (.mkfile p)
  | ["write_all", a, d] => do let p ← strOfArg a; let b ← bytesOfArg d; pure (.writeAll p b)
  | ["copyfile", a, d] => do let p ← strOfArg a; let x ← strOfArg d; pure (.copyfile p x)
  | ["symlink", a, d] => do let p ← strOfArg a; let x ← strOfArg d; pure (.symlink p x)
  | ["remove", a] => do let p ← strOfArg a; pure (.remove p)
  | ["remove_all", a] => do let p ← strOfArg a; pure (.removeAll p)
  | _ => none

/-- the harness prints the macro name and the first line of the message text -/
def showMacroOut : MOut → String
  | .pass => "pass"
  | .panic name msg =>
    "panic|" ++ name ++ "|" ++ (match msg with
      | some m => hexOfString ((m.splitOn "\n").headD "")
      | none => "ERR")

def macroOp (env : Env) (args : List String) (s : State) : Option (String × State) :=
  match parseMacro args with
  | some m => let (o, s') := runMacro env s m; some ("ok " ++ showMacroOut o, s')
  | none => none

end Driver
