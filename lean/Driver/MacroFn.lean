import Driver.MemfsFn
import Rivia.Model.Macros
import Rivia.Spec.MacroSpec

namespace Driver
open Rivia Rivia.Memfs Rivia.Macros Rivia.Spec.MacroSpec

def parseMacro (args : List String) : Option MacroCall :=
  match args with
  | ["exists", a] => do let p ← strOfArg a; pure (.exists p)
  | ["no_exists", a] => do let p ← strOfArg a; pure (.noExists p)
  | ["is_dir", a] => do let p ← strOfArg a; pure (.isDir p)
  | ["no_dir", a] => do let p ← strOfArg a; pure (.noDir p)
  | ["is_file", a] => do let p ← strOfArg a; pure (.isFile p)
  | ["no_file", a] => do let p ← strOfArg a; pure (.noFile p)
  | ["is_symlink", a] => do let p ← strOfArg a; pure (.isSymlink p)
  | ["no_symlink", a] => do let p ← strOfArg a; pure (.noSymlink p)
  | ["read_all", a, d] => do let p ← strOfArg a; let x ← strOfArg d; pure (.readAll p x)
  | ["readlink", a, d] => do let p ← strOfArg a; let x ← strOfArg d; pure (.readlink p x)
  | ["readlink_abs", a, d] => do let p ← strOfArg a; let x ← strOfArg d; pure (.readlinkAbs p x)
  | ["mkdir_p", a] => do let p ← strOfArg a; pure (.mkdirP p)
  | ["mkdir_m", a, m] => do let p ← strOfArg a; let mode ← octArg m; pure (.mkdirM p mode)
  | ["mkfile", a] => do let p ← strOfArg a; pure (.mkfile p)
  | ["write_all", a, d] => do let p ← strOfArg a; let b ← bytesOfArg d; pure (.writeAll p b)
  | ["copyfile", a, d] => do let p ← strOfArg a; let x ← strOfArg d; pure (.copyfile p x)
  | ["symlink", a, d] => do let p ← strOfArg a; let x ← strOfArg d; pure (.symlink p x)
  | ["remove", a] => do let p ← strOfArg a; pure (.remove p)
  | ["remove_all", a] => do let p ← strOfArg a; pure (.removeAll p)
  | _ => none

/-- the harness prints the macro name and the first line of the message text -/
def showMacroOut : MOut → String
  | .pass => "pass"
  | .panic name msg =>
    "panic|" ++ name ++ "|" ++ (match msg with
      | some m => hexOfString ((m.splitOn "\n").headD "")
      | none => "ERR")

/-- is the path argument resolved to the same key when the macro hands the absolute form back to
    the vfs (the macros call `abs` and then the operation on the result) -/
def stableArg (env : Env) (s : State) (p : Str) : Bool :=
  match keyOf env s p with
  | some a => keyOf env s (renderP a) == some a
  | none => true

def pathArgs : MacroCall → List Str
  | .exists p | .noExists p | .isDir p | .noDir p | .isFile p | .noFile p | .isSymlink p | .noSymlink p => [p]
  | .readAll p _ | .readlink p _ | .mkdirP p | .mkdirM p _ | .mkfile p | .writeAll p _ | .remove p | .removeAll p => [p]
  | .readlinkAbs p t | .copyfile p t | .symlink p t => [p, t]

/-- decidable classes of the known deviations between the macro bodies and their documentation -/
def macroClass (env : Env) (s : State) (m : MacroCall) : String :=
  if !(pathArgs m).all (stableArg env s) then "macro_double_resolution" else
  match m with
  | .noDir p => if pExists env s p && !pIsDir env s p then "no_dir_no_file_exists" else "-"
  | .noFile p => if pExists env s p && !pIsFile env s p then "no_dir_no_file_exists" else "-"
  | _ => "-"

/-- spec column: should the macro pass, and (when it should pass, or for a checking macro) the
    abstract tree it must leave. A macro that is to panic may stop before acting. -/
def macroSpecCol (env : Env) (s : State) (m : MacroCall) : String :=
  let (b, s') := macroSpec env s m
  (if b then "ok pass" else "ok panic") ++ " ## " ++
    (if b || isChecking m then absDump (Rivia.Spec.absS s') else "*")

def macroOp (env : Env) (args : List String) (s : State) : Option (String × State) :=
  match parseMacro args with
  | some m => let (o, s') := runMacro env s m; some ("ok " ++ showMacroOut o ++ " ## " ++ dumpState s' ++ "\t" ++ macroSpecCol env s m ++ "\t" ++ macroClass env s m, s')
  | none => none

end Driver
