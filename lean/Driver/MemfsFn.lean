import Driver.Util
import Driver.PathFn
import Rivia.Model.MemfsOps
import Rivia.Spec.MemfsJudge
import Rivia.Spec.Walk
import Rivia.Spec.WalkFollow

namespace Driver
open Rivia Rivia.Memfs

def octStr (n : Nat) : String := String.ofList (Nat.toDigits 8 n)

def pathLt : FsPath → FsPath → Bool
  | [], [] => false
  | [], _ :: _ => true
  | _ :: _, [] => false
  | a :: as, b :: bs => if strLt a b then true else if strLt b a then false else pathLt as bs

def insertBy {α} (lt : α → α → Bool) (x : α) : List α → List α
  | [] => [x]
  | y :: ys => if lt x y then x :: y :: ys else y :: insertBy lt x ys

def sortBy {α} (lt : α → α → Bool) (l : List α) : List α := l.foldr (insertBy lt) []

def hexP (p : FsPath) : String := hexOfStr (renderP p)
def b01 (b : Bool) : String := if b then "1" else "0"

def dumpEntry (k : FsPath) (e : Entry) : String :=
  "E " ++ hexP k ++ " path=" ++ hexP e.path ++ " alt=" ++ (match e.alt with | some a => hexP a | none => "") ++
  " rel=" ++ hexOfStr e.rel ++ " d=" ++ b01 e.dir ++ " f=" ++ b01 e.file ++ " l=" ++ b01 e.link ++
  " mode=" ++ octStr e.mode ++ " uid=" ++ toString e.uid ++ " gid=" ++ toString e.gid ++
  " follow=" ++ b01 e.follow ++ " cached=" ++ b01 e.cached ++ " files=" ++
  (match e.files with | some fs => "[" ++ String.intercalate "," (fs.map hexOfStr) ++ "]" | none => "-")

def dumpState (s : State) : String :=
  let es := sortBy (fun a b => pathLt a.1 b.1) s.entries
  let fs := sortBy (fun a b => pathLt a.1 b.1) s.files
  String.intercalate "|" (["cwd " ++ hexP s.cwd, "root " ++ hexP s.root] ++ es.map (fun kv => dumpEntry kv.1 kv.2) ++
    fs.map (fun kv => "F " ++ hexP kv.1 ++ " data=" ++ hexOfByteList kv.2 ++ " pos=0"))

def octArg (a : String) : Option Nat :=
  a.toList.foldlM (fun acc c => if '0' ≤ c ∧ c ≤ '7' then some (acc * 8 + (c.toNat - 48)) else none) 0

def flagArg (a : String) : Option Bool := if a = "0" then some false else if a = "1" then some true else none

def optNatArg (a : String) : Option (Option Nat) := if a = "-" then some none else a.toNat?.map some

def linesArg (a : String) : Option (List Str) :=
  match a.toList with
  | 'l' :: ':' :: body =>
    if body = [] then some []
    else ((String.ofList body).splitOn ",").mapM (fun h => strOfArg ("x" ++ h))
  | _ => none

def showU : Unit → String := fun _ => "u"
def showPath (p : FsPath) : String := showStr (renderP p)
def showPaths (l : List FsPath) : String := "l:" ++ String.intercalate "," (l.map hexP)

def showEntryV (e : Entry) : String :=
  "y:path=" ++ hexP e.path ++ ",alt=" ++ (match e.alt with | some a => hexP a | none => "") ++ ",rel=" ++ hexOfStr e.rel ++
  ",d=" ++ b01 e.dir ++ ",f=" ++ b01 e.file ++ ",l=" ++ b01 e.link ++ ",mode=" ++ octStr e.mode ++
  ",follow=" ++ b01 e.follow ++ ",exec=" ++ b01 (e.mode &&& 0o111 != 0) ++ ",ro=" ++ b01 (e.mode &&& 0o222 == 0) ++
  ",sd=" ++ b01 (e.link && e.dir) ++ ",sf=" ++ b01 (e.link && e.file)

def parseOp (fn : String) (args : List String) : Option Op :=
  match fn, args with
  | "mkfile", [a] => do let p ← strOfArg a; pure (.mkfile p)
  | "mkfile_m", [a, m] => do let p ← strOfArg a; let mode ← octArg m; pure (.mkfileM p mode)
  | "mkdir_p", [a] => do let p ← strOfArg a; pure (.mkdirP p)
  | "mkdir_m", [a, m] => do let p ← strOfArg a; let mode ← octArg m; pure (.mkdirM p mode)
  | "write_all", [a, d] => do let p ← strOfArg a; let b ← bytesOfArg d; pure (.writeAll p b)
  | "append_all", [a, d] => do let p ← strOfArg a; let b ← bytesOfArg d; pure (.appendAll p b)
  | "write_lines", [a, l] => do let p ← strOfArg a; let ls ← linesArg l; pure (.writeLines p ls)
  | "append_lines", [a, l] => do let p ← strOfArg a; let ls ← linesArg l; pure (.appendLines p ls)
  | "append_line", [a, l] => do let p ← strOfArg a; let ln ← strOfArg l; pure (.appendLine p ln)
  | "read_all", [a] => do let p ← strOfArg a; pure (.readAll p)
  | "read_lines", [a] => do let p ← strOfArg a; pure (.readLines p)
  | "read", [a] => do let p ← strOfArg a; pure (.read p)
  | "remove", [a] => do let p ← strOfArg a; pure (.remove p)
  | "remove_all", [a] => do let p ← strOfArg a; pure (.removeAll p)
  | "symlink", [a, b] => do let l ← strOfArg a; let t ← strOfArg b; pure (.symlink l t)
  | "readlink", [a] => do let p ← strOfArg a; pure (.readlink p)
  | "readlink_abs", [a] => do let p ← strOfArg a; pure (.readlinkAbs p)
  | "set_cwd", [a] => do let p ← strOfArg a; pure (.setCwd p)
  | "cwd", [] => some .cwd
  | "root", [] => some .root
  | "abs", [a] => do let p ← strOfArg a; pure (.abs p)
  | "exists", [a] => do let p ← strOfArg a; pure (.exists p)
  | "is_file", [a] => do let p ← strOfArg a; pure (.isFile p)
  | "is_dir", [a] => do let p ← strOfArg a; pure (.isDir p)
  | "is_symlink", [a] => do let p ← strOfArg a; pure (.isSymlink p)
  | "is_symlink_dir", [a] => do let p ← strOfArg a; pure (.isSymlinkDir p)
  | "is_symlink_file", [a] => do let p ← strOfArg a; pure (.isSymlinkFile p)
  | "is_exec", [a] => do let p ← strOfArg a; pure (.isExec p)
  | "is_readonly", [a] => do let p ← strOfArg a; pure (.isReadonly p)
  | "mode", [a] => do let p ← strOfArg a; pure (.mode p)
  | "uid", [a] => do let p ← strOfArg a; pure (.uid p)
  | "gid", [a] => do let p ← strOfArg a; pure (.gid p)
  | "owner", [a] => do let p ← strOfArg a; pure (.owner p)
  | "entry", [a] => do let p ← strOfArg a; pure (.entry p)
  | "paths", [a] => do let p ← strOfArg a; pure (.paths p)
  | "dirs", [a] => do let p ← strOfArg a; pure (.dirs p)
  | "files", [a] => do let p ← strOfArg a; pure (.files p)
  | "all_paths", [a] => do let p ← strOfArg a; pure (.allPaths p)
  | "all_dirs", [a] => do let p ← strOfArg a; pure (.allDirs p)
  | "all_files", [a] => do let p ← strOfArg a; pure (.allFiles p)
  | "chmod", [a, m] => do let p ← strOfArg a; let mode ← octArg m; pure (.chmod p mode)
  | "chmod_b", [a, d, f, fo, re, sy] => do
    let p ← strOfArg a; let dm ← octArg d; let fm ← octArg f; let fol ← flagArg fo; let rec ← flagArg re; let sym ← strOfArg sy
    pure (.chmodB p { dirs := dm, files := fm, follow := fol, recursive := rec, sym := sym })
  | "chown", [a, u, g] => do let p ← strOfArg a; let uid ← u.toNat?; let gid ← g.toNat?; pure (.chown p uid gid)
  | "chown_b", [a, u, g, fo, re] => do
    let p ← strOfArg a; let uid ← optNatArg u; let gid ← optNatArg g; let fol ← flagArg fo; let rec ← flagArg re
    pure (.chownB p { uid := uid, gid := gid, follow := fol, recursive := rec })
  | "copy", [a, b] => do let x ← strOfArg a; let y ← strOfArg b; pure (.copy x y)
  | "copy_b", [a, b, m, w, fo] => do
    let x ← strOfArg a; let y ← strOfArg b; let fol ← flagArg fo
    let mode ← if m = "-" then some none else (octArg m).map some
    let c : CopyOpts := match mode with
      | none => { follow := fol }
      | some mm => { mode := some mm, cdirs := w == "d", cfiles := w == "f", follow := fol }
    pure (.copyB x y c)
  | "move_p", [a, b] => do let x ← strOfArg a; let y ← strOfArg b; pure (.moveP x y)
  | "entries", [a, mn, mx, kind, fo, order, cf, md] => do
    let p ← strOfArg a; let min ← mn.toNat?; let fol ← flagArg fo; let cfirst ← flagArg cf
    let max ← if mx = "-" then some none else mx.toNat?.map some
    let mdesc ← if md = "-" then some none else md.toNat?.map some
    let k ← kind.toList.head?; let o ← order.toList.head?
    pure (.entries p { min := min, max := max, kind := k, follow := fol, order := o, contentsFirst := cfirst, maxDesc := mdesc })
  | "h_write", [i, a] => do let id ← i.toNat?; let p ← strOfArg a; pure (.hWrite id p)
  | "h_append", [i, a] => do let id ← i.toNat?; let p ← strOfArg a; pure (.hAppend id p)
  | "h_put", [i, d] => do let id ← i.toNat?; let b ← bytesOfArg d; pure (.hPut id b)
  | "h_flush", [i] => do let id ← i.toNat?; pure (.hFlush id)
  | "h_drop", [i] => do let id ← i.toNat?; pure (.hDrop id)
  | _, _ => none

/-- render a value exactly as the harness prints it -/
def showVal (op : Op) : Val → String
  | .unit => "u"
  | .path p => showPath p
  | .str x => showStr x
  | .bool b => showBool b
  | .nat n => showNat n
  | .pair a b => "i:" ++ toString a ++ "," ++ toString b
  | .strs l => showList l
  | .paths l => showPaths l
  | .bytes b => "x:" ++ hexOfByteList b
  | .entry e => showEntryV e
  | .trav items err =>
    let l := items.map hexP ++ (match err with | some k => ["E" ++ k.name] | none => [])
    let unsorted : Bool := match op with | .entries _ r => r.order == 'u' | _ => false
    let l := if unsorted then sortBy (fun a b => a < b) l else l
    "t:" ++ String.intercalate "," l

open Rivia.Spec Rivia.Spec.TreeFs in
def kindStr : Kind → String
  | .dir => "d" | .file => "f" | .link true => "ld" | .link false => "lf"

open Rivia.Spec Rivia.Spec.TreeFs in
/-- canonical abstract dump (python's `abs_of_dump` produces the same text from a raw dump) -/
def absDump (t : T) : String :=
  let ns := sortBy (fun a b => pathLt a.1 b.1) t.nodes
  String.intercalate "|" (("cwd=" ++ hexP t.cwd) :: ns.map (fun kv =>
    hexP kv.1 ++ ":" ++ kindStr kv.2.kind ++ ":" ++ octStr kv.2.perm ++ ":" ++ toString kv.2.uid ++ ":" ++ toString kv.2.gid ++ ":" ++
      (match kv.2.target with | some x => hexP x | none => "-") ++ ":" ++ hexOfByteList kv.2.data))

open Rivia.Spec Rivia.Spec.TreeFs in
def showR (op : Op) : R Val → String
  | .ok v => "ok " ++ showVal op v
  | .err (some k) => "err " ++ k.name
  | .err none => "err *"
  | .unspecified => "-"

open Rivia.Spec in
/-- spec column, class column, invariant column for one step from pre-state `s` -/
def judgeCols (env : Env) (s s' : State) (op : Op) : String :=
  let travSpec : Option (String × String) := match op with
    | .entries p r =>
      match absM env p s with
      | (.ok k, _) => (match entriesOf s k with
        | .ok (rootE, snap) =>
          -- sorted traversals that follow links order siblings by the name of the FOLLOWED path: two siblings
          -- with the same followed name are a tie whose order (with everything below them) is arbitrary
          let tie : Bool := r.follow && snap.any (fun kv =>
            match kv.2.files with
            | some ns =>
              let names := ns.filterMap (fun n => (alLookup (kv.1 ++ [n]) snap).map (fun c => ((c.doFollow true).path.getLast?).getD []))
              decide (names.eraseDups.length < names.length)
            | none => false)
          let cls := if tie then "follow_name_tie" else "-"
          if r.follow then
            -- recursive walk specification with link following and loop detection (Spec/WalkFollow.lean)
            let (es, err) := Spec.entriesSpecF snap r.opts rootE
            some ("ok " ++ showVal op (.trav (es.map (·.path)) err) ++ " ## " ++ absDump (absS s), cls)
          else
          let es := Spec.entriesSpec snap r.opts rootE
          some ("ok " ++ showVal op (.trav (es.map (·.path)) none) ++ " ## " ++ absDump (absS s), cls)
        | _ => none)
      | _ => none
    | _ => none
  match travSpec with
  | some (sp, cls) =>
    let inv := match invViolation s' with | none => "inv-ok" | some c => "inv-broken:" ++ c
    sp ++ "\t" ++ cls ++ "\t" ++ inv
  | none =>
  let spec := match specStep env (absS s) op with
    | some (r, t') => (match r with | .unspecified => "-" | _ => showR op r ++ " ## " ++ absDump t')
    | none => "-"
  let inv := match invViolation s' with | none => "inv-ok" | some c => "inv-broken:" ++ c
  -- a copy whose destination lies at/below its source or above it reads entries the same call
  -- creates: its effect depends on the hash iteration order (no comparison possible)
  let overlap : Bool := match op with
    | .copy a b | .copyB a b _ =>
      (match absM env a s, absM env b s with
       | (.ok ka, _), (.ok kb, _) =>
         let followed : Bool := match op with | .copyB _ _ c => c.follow | _ => false
         -- with follow the copy also reads what links below the source point to: a link into the
         -- destination (or back into the source) makes it read entries it is creating
         let viaLink : Bool := followed && s.entries.any (fun kv =>
           kv.2.link && ka.isPrefixOf kv.1 &&
             (match kv.2.alt with
              | some t => t.isPrefixOf kb || kb.isPrefixOf t || t.isPrefixOf ka || ka.isPrefixOf t
              | none => false))
         ka.isPrefixOf kb || kb.isPrefixOf ka || viaLink
       | _, _ => false)
    | _ => false
  spec ++ "\t" ++ (if overlap then "copy_overlap" else classOf s env op) ++ "\t" ++ inv

def memfsOp (env : Env) (fn : String) (args : List String) (s : State) : Option (Op × String × State) :=
  match parseOp fn args with
  | some op => let (o, s') := step env s op; some (op, showOutcome (showVal op) o, s')
  | none => none

end Driver
