import Driver.PathFn
import Driver.CoreFn

open Driver

def handle (line : String) : String :=
  match (line.trimAscii.toString.splitOn " ") with
  | fn :: args =>
    match pathFn fn args with
    | some r => r
    | none => match coreFn fn args with
      | some r => r
      | none => "bad-op"
  | [] => "bad-op"

partial def loop (hin : IO.FS.Stream) (hout : IO.FS.Stream) : IO Unit := do
  let line ← hin.getLine
  if line.isEmpty then return ()
  hout.putStrLn (handle line)
  loop hin hout

def main : IO Unit := do
  let hin ← IO.getStdin
  let hout ← IO.getStdout
  loop hin hout
  hout.flush
