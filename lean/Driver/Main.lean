import Driver.PathFn
import Driver.CoreFn
import Driver.MemfsFn
import Driver.MacroFn
import Driver.StdfsFn
import Rivia.Model.Conc

open Driver Rivia

structure Sess where
  st : Memfs.State := Memfs.init
  env : List (Str × Str) := []
  dead : Bool := false
  std : Option Rivia.Spec.TreeFs.T := none     -- `newstd`: the session runs on the Stdfs model

def handle (sess : Sess) (line : String) : String × Sess :=
  match (line.trimAscii.toString.splitOn " ") with
  | fn :: args =>
    if fn = "newstd" then
      match args with
      | [e] => match envOfArg e with
        | some env => ("ok new", { st := Memfs.init, env := env, dead := false, std := some Rivia.Stdfs.init })
        | none => ("bad-op", sess)
      | _ => ("bad-op", sess)
    else if fn = "new" ∨ fn = "newvfs" then
      match args with
      | [e] => match envOfArg e with
        | some env => ("ok new", { st := Memfs.init, env := env, dead := false })
        | none => ("bad-op", sess)
      | _ => ("bad-op", sess)
    else if fn = "sections" then
      match args with
      | f :: rest => match parseOp f rest with
        | some op => (match Rivia.Conc.sections op with
          | some l => (String.join (l.map fun k => match k with | .R => "R" | .W => "W") ++ "\t-\t-", sess)
          | none => ("?\t-\t-", sess))
        | none => ("bad-op", sess)
      | [] => ("bad-op", sess)
    else
    match sess.std with
    | some t =>
      (match stdOp (envLookup sess.env) fn args t with
       | some (r, t') => (r, { sess with std := some t' })
       | none => ("bad-op", sess))
    | none =>
    match pathFn fn args with
    | some r => (r, sess)
    | none => match coreFn fn args with
      | some r => (r, sess)
      | none =>
        if sess.dead then ("skipped", sess)
        else if fn = "assert" then
          match macroOp (envLookup sess.env) args sess.st with
          | some (r, st') => (r ++ "\t" ++ (match Rivia.Spec.invViolation st' with | none => "inv-ok" | some c => "inv-broken:" ++ c), { sess with st := st' })
          | none => ("bad-op", sess)
        else match memfsOp (envLookup sess.env) fn args sess.st with
          | some (op, r, st') =>
            let dead := r = "hang" ∨ r = "panic"
            (r ++ " ## " ++ dumpState st' ++ "\t" ++ judgeCols (envLookup sess.env) sess.st st' op, { sess with st := st', dead := dead })
          | none => ("bad-op", sess)
  | [] => ("bad-op", sess)

partial def loop (hin : IO.FS.Stream) (hout : IO.FS.Stream) (sess : Sess) : IO Unit := do
  let line ← hin.getLine
  if line.isEmpty then return ()
  let (r, sess') := handle sess line
  hout.putStrLn r
  loop hin hout sess'

def main : IO Unit := do
  let hin ← IO.getStdin
  let hout ← IO.getStdout
  loop hin hout {}
  hout.flush
