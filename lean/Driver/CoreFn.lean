import Driver.Util
import Driver.PathFn
import Rivia.Model.Core
import Rivia.Model.File
import Rivia.Model.Chmod
import Rivia.Model.User
import Rivia.Model.Defer
import Rivia.Spec.Lists
import Rivia.Spec.Cursor
import Rivia.Spec.ChmodGrammar
import Rivia.Spec.Xdg

namespace Driver
open Rivia

def showInts (l : List Nat) : String := "i:" ++ String.intercalate "," (l.map toString)
def okInts (l : List Nat) : String := "ok " ++ showInts l
def items (len : Nat) : List Nat := List.range len

def showOptNat : Option Nat → String
  | some x => "ok o:" ++ toString x
  | none => "ok o:-"

/-! handle op sequences -/
open File in
def parseHOp (t : String) : Option HOp :=
  match t.toList with
  | 'r' :: n => (String.ofList n).toNat?.map HOp.read
  | ['a'] => some .readAll
  | 's' :: 's' :: o => (String.ofList o).toInt?.map (HOp.seek .start)
  | 's' :: 'c' :: o => (String.ofList o).toInt?.map (HOp.seek .current)
  | 's' :: 'e' :: o => (String.ofList o).toInt?.map (HOp.seek .endw)
  | _ => none

def showObs : File.Obs → String
  | .bytes b => "r:" ++ hexOfByteList b
  | .pos p => "k:" ++ toString p
  | .err k => "e:" ++ k.name

def parseWOp (t : String) : Option File.WOp :=
  match t.toList with
  | ['f'] => some .flush
  | 'w' :: h => (bytesOfHex (String.ofList h)).map (fun b => File.WOp.write b.toList)
  | _ => none

/-- stored content observed after each op of a write session, then after the drop -/
def wTrace : File.WHandle → File.Bytes → List File.WOp → List File.Bytes
  | h, st, [] => [h.sync st]
  | h, st, .write c :: ops => st :: wTrace (h.write c) st ops
  | h, st, .flush :: ops => h.sync st :: wTrace h (h.sync st) ops

def wSpecTrace (base : File.Bytes) : File.Bytes → File.Bytes → List File.WOp → List File.Bytes
  | written, _, [] => [base ++ written]
  | written, st, .write c :: ops => st :: wSpecTrace base (written ++ c) st ops
  | written, _, .flush :: ops => (base ++ written) :: wSpecTrace base written (base ++ written) ops

def ekindOf (k : String) : Option Chmod.EKind :=
  match k with
  | "d" => some ⟨true, false, false⟩
  | "f" => some ⟨false, true, false⟩
  | "D" => some ⟨true, false, true⟩
  | "F" => some ⟨false, true, true⟩
  | _ => none

def octOfArg (a : String) : Option Nat :=
  a.toList.foldlM (fun acc c => if '0' ≤ c ∧ c ≤ '7' then some (acc * 8 + (c.toNat - 48)) else none) 0

/-- a clean absolute path and all its ancestors -/
def ancestors : Nat → Str → List Str
  | 0, p => [p]
  | f + 1, p => match parentStr p with
    | some q => p :: ancestors f q
    | none => [p]

def showOptPath : Option Str → String
  | some p => "ok o:" ++ showStr p
  | none => "ok o:-"

def coreFn (fn : String) (args : List String) : Option String :=
  match fn, args with
  | "it_drop", [l, n] => do
    let len ← natOfArg l; let k ← intOfArg n
    pure (line3 (okInts (Core.drop (items len) k)) (okInts (Spec.dropSpec (items len) k)) "-")
  | "it_slice", [l, a, b] => do
    let len ← natOfArg l; let x ← intOfArg a; let y ← intOfArg b
    let m := okInts (Core.slice (items len) x y)
    pure (line3 m (if x < -(len : Int) then "-" else okInts (Spec.sliceSpec (items len) x y)) "-")
  | "it_consume", [l] => do let len ← natOfArg l; pure (line3 (okInts (Core.consume (items len))) (okInts []) "-")
  | "it_first", [l] => do let len ← natOfArg l; pure (line3 (showOptNat (Core.first (items len))) (showOptNat (items len).head?) "-")
  | "it_first_result", [l] => do
    let len ← natOfArg l
    pure (line3 (showOutcome showNat (Core.firstResult (items len))) (showOutcome showNat (Outcome.ofOption .iterItemNotFound (items len).head?)) "-")
  | "it_last_result", [l] => do
    let len ← natOfArg l
    pure (line3 (showOutcome showNat (Core.lastResult (items len))) (showOutcome showNat (Outcome.ofOption .iterItemNotFound (items len).getLast?)) "-")
  | "it_single", [l] => do
    let len ← natOfArg l
    pure (line3 (showOutcome showNat (Core.single (items len))) (showOutcome showNat (Spec.singleSpec (items len))) "-")
  | "it_some", [l] => do let len ← natOfArg l; pure (line3 (okBool (Core.hasSome (items len))) (okBool (decide (len > 0))) "-")
  | "defer", [a] => do
    let s ← strOfArg a
    match Rivia.Defer.parseDefer (String.ofList s) with
    -- the model of scope exit IS the specification of the defer clause (guards run at scope end, once, LIFO)
    | some prog => let o := Rivia.Defer.showDOut (Rivia.Defer.runDefer prog); pure (line3 o o "-")
    | none => none
  | "str_size", [a] => do let s ← strOfArg a; pure (line3 ("ok " ++ showNat (Core.size s)) ("ok " ++ showNat s.length) "-")
  | "str_to_bool", [a] => do let s ← strOfArg a; pure (line3 (okBool (Core.toBool s)) (okBool (Spec.toBoolSpec s)) "-")
  | "str_trim_suffix", [a, b] => do
    let s ← strOfArg a; let t ← strOfArg b
    pure (line3 (okStr (Core.trimSuffix s t)) (okStr (Spec.trimSuffixSpec' s t)) "-")
  | "opt_has", [o, x] => do
    let v ← intOfArg x
    let ov : Option Int ← if o = "-" then pure none else (intOfArg o).map some
    pure (line3 (okBool (Core.has ov v)) (okBool (decide (ov = some v))) "-")
  | "take_while_p", [a, b] => do
    let s ← strOfArg a; let allowed ← strOfArg b
    let p := fun (c : Char) => List.elem c allowed
    let (t, r) := Core.takeWhileP p s
    pure (line3 ("ok " ++ showList [t, r]) ("ok " ++ showList [s.takeWhile p, s.dropWhile p]) "-")
  | "file", [d, o] => do
    let data ← bytesOfArg d
    let ops ← (o.splitOn ",").mapM parseHOp
    let m := "ok " ++ String.intercalate ";" ((File.runOps ⟨0, data⟩ ops).map showObs)
    let s := "ok " ++ String.intercalate ";" ((Spec.Cursor.runOps ⟨0, data⟩ ops).map showObs)
    pure (line3 m s "-")
  | "whandle", [md, d, o] => do
    let data ← bytesOfArg d
    let ops ← (o.splitOn ",").mapM parseWOp
    let app := md == "a"
    let h0 := if app then File.openAppend data else File.openWrite data
    let m := "ok " ++ String.intercalate ";" ((wTrace h0 data ops).map hexOfByteList)
    let s := "ok " ++ String.intercalate ";" ((wSpecTrace (if app then data else []) [] data ops).map hexOfByteList)
    pure (line3 m s "-")
  | "cursor", [d, o] => do
    let data ← bytesOfArg d
    let ops ← (o.splitOn ",").mapM parseHOp
    let s := "ok " ++ String.intercalate ";" ((Spec.Cursor.runOps ⟨0, data⟩ ops).map showObs)
    pure (line3 s s "-")
  | "mode", [k, c, o, sy] => do
    let ek ← ekindOf k; let cur ← octOfArg c; let oct ← octOfArg o; let sym ← strOfArg sy
    -- spec: octal wins; nothing requested = 0; else the grammar (error when malformed)
    let sp : String := if oct ≠ 0 then "ok " ++ showNat oct else if sym = [] then "ok " ++ showNat 0
      else match Spec.symSpec ek cur sym with | some m => "ok " ++ showNat m | none => "err *"
    let cls : String := if oct ≠ 0 ∨ sym = [] then "-"
      else match Spec.parseExpr sym with
        | none => "sym_malformed"
        | some _ => "-"   -- `sym_kind_specific_clauses` repaired: see Props.C11_symbolic_full
    pure (line3 (showOutcome showNat (Chmod.mode ek cur oct sym)) sp cls)
  | "revoking", [a, b] => do
    let x ← octOfArg a; let y ← octOfArg b
    pure (line3 (okBool (Chmod.revokingMode x y)) "-" "-")
  | "xdg", [w, e] => do
    let env ← envOfArg e
    let en := envLookup env
    let os (o : Option (Outcome Str)) : String := match o with | some r => showOutcome showStr r | none => "-"
    let (r, sp) ← match w with
      | "config_dir" => some (showOutcome showStr (User.configDir en), os (Spec.homeDirSpec en "XDG_CONFIG_HOME" ".config"))
      | "cache_dir" => some (showOutcome showStr (User.cacheDir en), os (Spec.homeDirSpec en "XDG_CACHE_HOME" ".cache"))
      | "data_dir" => some (showOutcome showStr (User.dataDir en), os (Spec.homeDirSpec en "XDG_DATA_HOME" ".local/share"))
      | "state_dir" => some (showOutcome showStr (User.stateDir en), os (Spec.homeDirSpec en "XDG_STATE_HOME" ".local/state"))
      | "runtime_dir" => some (okStr (User.runtimeDir en), okStr ((en (Spec.sv "XDG_RUNTIME_DIR")).getD (Spec.sv "/tmp")))
      | "sys_data_dirs" => some ("ok " ++ showList (User.sysDataDirs en), "ok " ++ showList (Spec.listDirSpec en "XDG_DATA_DIRS" ["/usr/local/share", "/usr/share"]))
      | "sys_config_dirs" => some ("ok " ++ showList (User.sysConfigDirs en), "ok " ++ showList (Spec.listDirSpec en "XDG_CONFIG_DIRS" ["/etc/xdg"]))
      | "path_dirs" => some (showOutcome showList (User.pathDirs en),
          match en (Spec.sv "PATH") with | some x => "ok " ++ showList (Spec.segmentsSpec x) | none => "err Var")
      | "home_dir" => some (showOutcome showStr (homeDir en), showOutcome showStr (Outcome.ofOption .var (en (Spec.sv "HOME"))))
      | _ => none
    pure (line3 r sp "-")
  | "getrids", [u, g, e] => do
    let uid ← natOfArg u; let gid ← natOfArg g; let env ← envOfArg e
    let (a, b) := User.getrids (envLookup env) uid gid
    let (a', b') := Spec.getridsSpec (envLookup env) uid gid
    pure (line3 (okInts [a, b]) (okInts [a', b']) "-")
  | "vfs_config_dir", [n, d, e] => do
    let name ← strOfArg n; let dirs ← strOfArg d; let env ← envOfArg e
    -- paths present on the Memfs: every listed dir (with its ancestors) and dir/name
    let en := envLookup env
    let present := (parsePaths dirs).flatMap (fun dd =>
      match absWith en ['/'] dd with
      | .ok da => (match absWith en ['/'] (mash da name) with | .ok f => [f] | _ => []) ++ ancestors da.length da
      | _ => [])
    let ex := fun (p : Str) => match absWith en ['/'] p with
      | .ok a => List.elem a present
      | _ => false
    let sp := match Spec.vfsConfigDirSpec en ex name with | some r => showOptPath r | none => "-"
    pure (line3 (showOptPath (User.vfsConfigDir en ex name)) sp "-")
  | _, _ => none

end Driver
