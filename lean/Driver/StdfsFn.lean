/-
  Driver.StdfsFn — sessions over the Stdfs model (Rivia.Model.Stdfs over the kernel model
  Rivia.Model.Posix): one call per line, `result ## tree \t reference \t class`.
-/
import Driver.MemfsFn
import Rivia.Lemmas.Stdfs

namespace Driver
open Rivia Rivia.Memfs Rivia.Spec Rivia.Spec.TreeFs Rivia.Lemmas.StdfsL

/-- why a (pre-state, call) pair is outside the domain of the per-step theorem
    `C02_stdfs_refines_reference_partial` (first failing clause of `d2B`, then `CoveredS`), `-` inside -/
def stdClass (env : Env) (t : T) (op : Op) : String :=
  if !(linksOkB t && linkTextOkB env t) then "dom_links"
  else if !(isDir t t.cwd) then "S10_cwd_removed"
  else if !((opArgs op).all (argOk env t)) then "dom_arg"
  else if !(opOk env t op) then
    (match op with
     | .isExec _ | .isReadonly _ | .uid _ | .gid _ | .owner _ => "S6_metadata_follows_link"
     | .writeLines _ _ | .appendLines _ _ | .appendLine _ _ => "empty_lines_noop"
     | .moveP _ _ => "S8_move_links"
     | .paths _ | .dirs _ | .files _ | .allPaths _ | .allDirs _ | .allFiles _ => "S7_keysRT"
     | .chown _ _ _ | .chownB _ _ => "S16_chown_follows_link"
     | .chmod _ _ | .chmodB _ _ => "S11_chmod"
     | _ => "opOk")
  else if !(CoveredS op) then "uncovered"
  else "-"

def stdOp (env : Env) (fn : String) (args : List String) (t : T) : Option (String × T) :=
  match parseOp fn args with
  | some op =>
    let (o, t') := Rivia.Stdfs.step env t op
    let spec := match specStep env t op with
      | some (r, tr) => (match r with | .unspecified => "-" | _ => showR op r ++ " ## " ++ absDump tr)
      | none => "-"
    some (showOutcome (showVal op) o ++ " ## " ++ absDump t' ++ "\t" ++ spec ++ "\t" ++ stdClass env t op, t')
  | none => none

end Driver
