import Rivia.Model.Str
import Rivia.Model.Outcome
import Rivia.Model.Path
import Rivia.Spec.GoClean
