// Shared helpers: hex transport, error-kind mapping, panic capture.
use rivia::prelude::*;
use std::panic::{catch_unwind, AssertUnwindSafe};

pub fn hex(b: &[u8]) -> String {
    let mut s = String::with_capacity(b.len() * 2);
    for x in b {
        s.push_str(&format!("{:02x}", x));
    }
    s
}

pub fn unhex(s: &str) -> Option<Vec<u8>> {
    let b = s.as_bytes();
    if b.len() % 2 != 0 {
        return None;
    }
    let mut out = Vec::with_capacity(b.len() / 2);
    for i in (0..b.len()).step_by(2) {
        let h = (b[i] as char).to_digit(16)?;
        let l = (b[i + 1] as char).to_digit(16)?;
        out.push((h * 16 + l) as u8);
    }
    Some(out)
}

/// decode an `x<hex>` argument into bytes
pub fn arg_bytes(a: &str) -> Option<Vec<u8>> {
    unhex(a.strip_prefix('x')?)
}

/// decode an `x<hex>` argument into a UTF-8 string
pub fn arg_str(a: &str) -> Option<String> {
    String::from_utf8(arg_bytes(a)?).ok()
}

pub fn show_str(s: &str) -> String {
    format!("s:{}", hex(s.as_bytes()))
}
pub fn show_path(p: &Path) -> String {
    use std::os::unix::ffi::OsStrExt;
    format!("s:{}", hex(p.as_os_str().as_bytes()))
}
pub fn show_comps(p: &Path) -> String {
    use std::os::unix::ffi::OsStrExt;
    format!("l:{}", p.components().map(|c| hex(c.as_os_str().as_bytes())).collect::<Vec<_>>().join(","))
}
pub fn show_bool(b: bool) -> String {
    format!("b:{}", if b { 1 } else { 0 })
}
pub fn show_paths(l: &[PathBuf]) -> String {
    use std::os::unix::ffi::OsStrExt;
    format!("l:{}", l.iter().map(|p| hex(p.as_os_str().as_bytes())).collect::<Vec<_>>().join(","))
}
pub fn show_strs(l: &[String]) -> String {
    format!("l:{}", l.iter().map(|p| hex(p.as_bytes())).collect::<Vec<_>>().join(","))
}

pub fn io_kind(k: std::io::ErrorKind) -> &'static str {
    use std::io::ErrorKind::*;
    match k {
        NotFound => "IoNotFound",
        InvalidData => "IoInvalidData",
        InvalidInput => "IoInvalidInput",
        _ => "IoOther",
    }
}

pub fn err_kind(e: &RvError) -> String {
    match e {
        RvError::Path(p) => match p {
            PathError::DirContainsFiles(_) => "DirContainsFiles",
            PathError::DirDoesNotMatchParent(_) => "Other",
            PathError::DoesNotExist(_) => "DoesNotExist",
            PathError::Empty => "Empty",
            PathError::ExistsAlready(_) => "ExistsAlready",
            PathError::ExtensionNotFound(_) => "ExtensionNotFound",
            PathError::FailedToString(_) => "FailedToString",
            PathError::FileNameNotFound(_) => "FileNameNotFound",
            PathError::InvalidExpansion(_) => "InvalidExpansion",
            PathError::IsNotDir(_) => "IsNotDir",
            PathError::IsNotExec(_) => "Other",
            PathError::IsNotFile(_) => "IsNotFile",
            PathError::IsNotSymlink(_) => "IsNotSymlink",
            PathError::IsNotFileOrSymlinkToFile(_) => "Other",
            PathError::LinkLooping(_) => "LinkLooping",
            PathError::MultipleHomeSymbols(_) => "MultipleHomeSymbols",
            PathError::ParentNotFound(_) => "ParentNotFound",
        }
        .to_string(),
        RvError::Iter(i) => match i {
            IterError::ItemNotFound => "IterItemNotFound",
            IterError::MultipleItemsFound => "IterMultipleItemsFound",
            _ => "Other",
        }
        .to_string(),
        RvError::Io(e) => io_kind(e.kind()).to_string(),
        RvError::Var(_) => "Var".to_string(),
        RvError::Utf8(_) => "Utf8".to_string(),
        RvError::Vfs(v) => match v {
            VfsError::InvalidChmod(_) => "InvalidChmod",
            VfsError::InvalidChmodGroup(_) => "InvalidChmodGroup",
            VfsError::InvalidChmodOp(_) => "InvalidChmodOp",
            VfsError::InvalidChmodPermissions(_) => "InvalidChmodPermissions",
            VfsError::InvalidChmodTarget(_) => "InvalidChmodTarget",
            _ => "Other",
        }
        .to_string(),
        _ => "Other".to_string(),
    }
}

pub fn show_res<T>(r: RvResult<T>, f: impl Fn(&T) -> String) -> String {
    match r {
        Ok(v) => format!("ok {}", f(&v)),
        Err(e) => format!("err {}", err_kind(&e)),
    }
}

/// Run a closure, mapping a panic to the result line `panic`.
pub fn guarded(f: impl FnOnce() -> String) -> String {
    match catch_unwind(AssertUnwindSafe(f)) {
        Ok(s) => s,
        Err(_) => "panic".to_string(),
    }
}

pub fn silence_panics() {
    std::panic::set_hook(Box::new(|_| {}));
}
