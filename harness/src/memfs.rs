// Stateful sessions against a live Memfs (optionally through the Vfs enum): one op per line,
// one result line `outcome ## state-dump` per op.
use crate::pathfn::apply_env;
use crate::util::*;
use rivia::prelude::*;
use std::collections::HashMap;
use std::io::Write as IoWrite;

pub struct Session {
    pub vfs: Memfs,
    pub wrap: Option<Vfs>, // when set, calls go through the Vfs enum (C13)
    pub handles: HashMap<u64, Box<dyn std::io::Write>>,
    pub touched: Vec<String>,
}

#[allow(dead_code)]
fn _x() {}
fn oct(a: &str) -> Option<u32> {
    u32::from_str_radix(a, 8).ok()
}
fn flag(a: &str) -> Option<bool> {
    match a {
        "0" => Some(false),
        "1" => Some(true),
        _ => None,
    }
}
fn opt_u32(a: &str) -> Option<Option<u32>> {
    if a == "-" {
        Some(None)
    } else {
        a.parse::<u32>().ok().map(Some)
    }
}
fn lines_arg(a: &str) -> Option<Vec<String>> {
    let body = a.strip_prefix("l:")?;
    if body.is_empty() {
        return Some(vec![]);
    }
    body.split(',').map(|h| String::from_utf8(unhex(h)?).ok()).collect()
}

fn show_entry(e: &VfsEntry) -> String {
    use std::os::unix::ffi::OsStrExt;
    let hp = |p: &Path| hex(p.as_os_str().as_bytes());
    format!(
        "y:path={},alt={},rel={},d={},f={},l={},mode={:o},follow={},exec={},ro={},sd={},sf={}",
        hp(e.path()),
        hp(e.alt()),
        hp(e.rel()),
        e.is_dir() as u8,
        e.is_file() as u8,
        e.is_symlink() as u8,
        e.mode(),
        e.following() as u8,
        e.is_exec() as u8,
        e.is_readonly() as u8,
        e.is_symlink_dir() as u8,
        e.is_symlink_file() as u8
    )
}

pub fn dump(vfs: &Memfs) -> String {
    rivia::verif::memfs_dump(vfs).replace('\n', "|")
}

macro_rules! on_vfs {
    ($s:expr, $v:ident, $body:expr) => {
        match &$s.wrap {
            Some(w) => {
                let $v = w;
                $body
            },
            None => {
                let $v = &$s.vfs;
                $body
            },
        }
    };
}

impl Session {
    pub fn new() -> Self {
        Session { vfs: Memfs::new(), wrap: None, handles: HashMap::new(), touched: vec![] }
    }

    pub fn reset(&mut self, envspec: &str, wrapped: bool) -> Option<()> {
        self.handles.clear();
        self.vfs = Memfs::new();
        self.wrap = None;
        if wrapped {
            // the wrapped instance shares nothing with self.vfs: keep a handle for dumping
            let m = Memfs::new();
            let v = m.upcast();
            if let Vfs::Memfs(ref inner) = v {
                // a second handle onto the same Arc for the dump
                self.vfs = rivia::verif::memfs_share(inner);
            }
            self.wrap = Some(v);
        }
        apply_env(envspec, &mut self.touched)
    }

    pub fn op(&mut self, name: &str, a: &[&str]) -> Option<String> {
        let s = |i: usize| -> Option<String> { arg_str(a.get(i)?) };
        let out: String = match (name, a.len()) {
            ("mkfile", 1) => { let p = s(0)?; on_vfs!(self, v, guarded(|| show_res(v.mkfile(&p), |x| show_path(x)))) },
            ("mkfile_m", 2) => { let (p, m) = (s(0)?, oct(a[1])?); on_vfs!(self, v, guarded(|| show_res(v.mkfile_m(&p, m), |x| show_path(x)))) },
            ("mkdir_p", 1) => { let p = s(0)?; on_vfs!(self, v, guarded(|| show_res(v.mkdir_p(&p), |x| show_path(x)))) },
            ("mkdir_m", 2) => { let (p, m) = (s(0)?, oct(a[1])?); on_vfs!(self, v, guarded(|| show_res(v.mkdir_m(&p, m), |x| show_path(x)))) },
            ("write_all", 2) => { let (p, d) = (s(0)?, arg_bytes(a[1])?); on_vfs!(self, v, guarded(|| show_res(v.write_all(&p, &d), |_| "u".to_string()))) },
            ("append_all", 2) => { let (p, d) = (s(0)?, arg_bytes(a[1])?); on_vfs!(self, v, guarded(|| show_res(v.append_all(&p, &d), |_| "u".to_string()))) },
            ("write_lines", 2) => { let (p, l) = (s(0)?, lines_arg(a[1])?); on_vfs!(self, v, guarded(|| show_res(v.write_lines(&p, &l), |_| "u".to_string()))) },
            ("append_lines", 2) => { let (p, l) = (s(0)?, lines_arg(a[1])?); on_vfs!(self, v, guarded(|| show_res(v.append_lines(&p, &l), |_| "u".to_string()))) },
            ("append_line", 2) => { let (p, l) = (s(0)?, s(1)?); on_vfs!(self, v, guarded(|| show_res(v.append_line(&p, &l), |_| "u".to_string()))) },
            ("read_all", 1) => { let p = s(0)?; on_vfs!(self, v, guarded(|| show_res(v.read_all(&p), |x| show_str(x)))) },
            ("read_lines", 1) => { let p = s(0)?; on_vfs!(self, v, guarded(|| show_res(v.read_lines(&p), |x| show_strs(x)))) },
            // raw bytes through the read handle
            ("read", 1) => {
                let p = s(0)?;
                on_vfs!(self, v, guarded(|| match v.read(&p) {
                    Ok(mut h) => {
                        let mut buf = vec![];
                        match h.read_to_end(&mut buf) {
                            Ok(_) => format!("ok x:{}", hex(&buf)),
                            Err(e) => format!("err {}", io_kind(e.kind())),
                        }
                    },
                    Err(e) => format!("err {}", err_kind(&e)),
                }))
            },
            ("remove", 1) => { let p = s(0)?; on_vfs!(self, v, guarded(|| show_res(v.remove(&p), |_| "u".to_string()))) },
            ("remove_all", 1) => { let p = s(0)?; on_vfs!(self, v, guarded(|| show_res(v.remove_all(&p), |_| "u".to_string()))) },
            ("symlink", 2) => { let (l, t) = (s(0)?, s(1)?); on_vfs!(self, v, guarded(|| show_res(v.symlink(&l, &t), |x| show_path(x)))) },
            ("readlink", 1) => { let p = s(0)?; on_vfs!(self, v, guarded(|| show_res(v.readlink(&p), |x| show_path(x)))) },
            ("readlink_abs", 1) => { let p = s(0)?; on_vfs!(self, v, guarded(|| show_res(v.readlink_abs(&p), |x| show_path(x)))) },
            ("set_cwd", 1) => { let p = s(0)?; on_vfs!(self, v, guarded(|| show_res(v.set_cwd(&p), |x| show_path(x)))) },
            ("cwd", 0) => on_vfs!(self, v, guarded(|| show_res(v.cwd(), |x| show_path(x)))),
            ("root", 0) => on_vfs!(self, v, guarded(|| format!("ok {}", show_path(&v.root())))),
            ("abs", 1) => { let p = s(0)?; on_vfs!(self, v, guarded(|| show_res(v.abs(&p), |x| show_path(x)))) },
            ("exists", 1) => { let p = s(0)?; on_vfs!(self, v, guarded(|| format!("ok {}", show_bool(v.exists(&p))))) },
            ("is_file", 1) => { let p = s(0)?; on_vfs!(self, v, guarded(|| format!("ok {}", show_bool(v.is_file(&p))))) },
            ("is_dir", 1) => { let p = s(0)?; on_vfs!(self, v, guarded(|| format!("ok {}", show_bool(v.is_dir(&p))))) },
            ("is_symlink", 1) => { let p = s(0)?; on_vfs!(self, v, guarded(|| format!("ok {}", show_bool(v.is_symlink(&p))))) },
            ("is_symlink_dir", 1) => { let p = s(0)?; on_vfs!(self, v, guarded(|| format!("ok {}", show_bool(v.is_symlink_dir(&p))))) },
            ("is_symlink_file", 1) => { let p = s(0)?; on_vfs!(self, v, guarded(|| format!("ok {}", show_bool(v.is_symlink_file(&p))))) },
            ("is_exec", 1) => { let p = s(0)?; on_vfs!(self, v, guarded(|| format!("ok {}", show_bool(v.is_exec(&p))))) },
            ("is_readonly", 1) => { let p = s(0)?; on_vfs!(self, v, guarded(|| format!("ok {}", show_bool(v.is_readonly(&p))))) },
            ("mode", 1) => { let p = s(0)?; on_vfs!(self, v, guarded(|| show_res(v.mode(&p), |x| format!("n:{}", x)))) },
            ("uid", 1) => { let p = s(0)?; on_vfs!(self, v, guarded(|| show_res(v.uid(&p), |x| format!("n:{}", x)))) },
            ("gid", 1) => { let p = s(0)?; on_vfs!(self, v, guarded(|| show_res(v.gid(&p), |x| format!("n:{}", x)))) },
            ("owner", 1) => { let p = s(0)?; on_vfs!(self, v, guarded(|| show_res(v.owner(&p), |x| format!("i:{},{}", x.0, x.1)))) },
            ("paths", 1) => { let p = s(0)?; on_vfs!(self, v, guarded(|| show_res(v.paths(&p), |x| show_paths(x)))) },
            ("dirs", 1) => { let p = s(0)?; on_vfs!(self, v, guarded(|| show_res(v.dirs(&p), |x| show_paths(x)))) },
            ("files", 1) => { let p = s(0)?; on_vfs!(self, v, guarded(|| show_res(v.files(&p), |x| show_paths(x)))) },
            ("all_paths", 1) => { let p = s(0)?; on_vfs!(self, v, guarded(|| show_res(v.all_paths(&p), |x| show_paths(x)))) },
            ("all_dirs", 1) => { let p = s(0)?; on_vfs!(self, v, guarded(|| show_res(v.all_dirs(&p), |x| show_paths(x)))) },
            ("all_files", 1) => { let p = s(0)?; on_vfs!(self, v, guarded(|| show_res(v.all_files(&p), |x| show_paths(x)))) },
            ("entry", 1) => { let p = s(0)?; on_vfs!(self, v, guarded(|| show_res(v.entry(&p), |x| show_entry(x)))) },
            ("chmod", 2) => { let (p, m) = (s(0)?, oct(a[1])?); on_vfs!(self, v, guarded(|| show_res(v.chmod(&p, m), |_| "u".to_string()))) },
            // chmod_b x<path> <dirs oct> <files oct> <follow> <recursive> x<sym>
            ("chmod_b", 6) => {
                let (p, d, f, fo, re, sy) = (s(0)?, oct(a[1])?, oct(a[2])?, flag(a[3])?, flag(a[4])?, s(5)?);
                on_vfs!(self, v, guarded(|| {
                    show_res(
                        (|| -> RvResult<()> {
                            let mut b = v.chmod_b(&p)?;
                            b = b.dirs(d).files(f);
                            if fo {
                                b = b.follow();
                            }
                            b = if re { b.recurse() } else { b.no_recurse() };
                            if !sy.is_empty() {
                                b = b.sym(&sy);
                            }
                            b.exec()
                        })(),
                        |_| "u".to_string(),
                    )
                }))
            },
            ("chown", 3) => { let (p, u, g) = (s(0)?, a[1].parse::<u32>().ok()?, a[2].parse::<u32>().ok()?); on_vfs!(self, v, guarded(|| show_res(v.chown(&p, u, g), |_| "u".to_string()))) },
            // chown_b x<path> <uid|-> <gid|-> <follow> <recursive>
            ("chown_b", 5) => {
                let (p, u, g, fo, re) = (s(0)?, opt_u32(a[1])?, opt_u32(a[2])?, flag(a[3])?, flag(a[4])?);
                on_vfs!(self, v, guarded(|| {
                    show_res(
                        (|| -> RvResult<()> {
                            let mut b = v.chown_b(&p)?;
                            if let Some(u) = u {
                                b = b.uid(u);
                            }
                            if let Some(g) = g {
                                b = b.gid(g);
                            }
                            if fo {
                                b = b.follow();
                            }
                            b = b.recurse(re);
                            b.exec()
                        })(),
                        |_| "u".to_string(),
                    )
                }))
            },
            ("copy", 2) => { let (x, y) = (s(0)?, s(1)?); on_vfs!(self, v, guarded(|| show_res(v.copy(&x, &y), |_| "u".to_string()))) },
            // copy_b x<src> x<dst> <mode oct|-> <which: a|d|f> <follow>
            ("copy_b", 5) => {
                let (x, y, fo) = (s(0)?, s(1)?, flag(a[4])?);
                let m = if a[2] == "-" { None } else { Some(oct(a[2])?) };
                let which = a[3].to_string();
                on_vfs!(self, v, guarded(|| {
                    show_res(
                        (|| -> RvResult<()> {
                            let mut b = v.copy_b(&x, &y)?;
                            if let Some(m) = m {
                                b = match which.as_str() {
                                    "d" => b.chmod_dirs(m),
                                    "f" => b.chmod_files(m),
                                    _ => b.chmod_all(m),
                                };
                            }
                            b = b.follow(fo);
                            b.exec()
                        })(),
                        |_| "u".to_string(),
                    )
                }))
            },
            ("move_p", 2) => { let (x, y) = (s(0)?, s(1)?); on_vfs!(self, v, guarded(|| show_res(v.move_p(&x, &y), |_| "u".to_string()))) },
            // entries x<path> <min> <max|-> <kind: a|d|f> <follow> <order: u|s|d|f> <contents_first> <maxdesc|->
            ("entries", 8) => {
                let p = s(0)?;
                let min: usize = a[1].parse().ok()?;
                let max: Option<usize> = if a[2] == "-" { None } else { Some(a[2].parse().ok()?) };
                let (kind, fo, order, cf) = (a[3].to_string(), flag(a[4])?, a[5].to_string(), flag(a[6])?);
                let md: Option<u16> = if a[7] == "-" { None } else { Some(a[7].parse().ok()?) };
                on_vfs!(self, v, guarded(|| {
                    let r = (|| -> RvResult<Vec<String>> {
                        let mut e = v.entries(&p)?;
                        e = e.min_depth(min);
                        if let Some(m) = max {
                            e = e.max_depth(m);
                        }
                        e = match kind.as_str() {
                            "d" => e.dirs(),
                            "f" => e.files(),
                            _ => e,
                        };
                        e = e.follow(fo);
                        e = match order.as_str() {
                            "s" => e.sort_by_name(),
                            "d" => e.dirs_first(),
                            "f" => e.files_first(),
                            _ => e,
                        };
                        if cf {
                            e = e.contents_first();
                        }
                        if let Some(m) = md {
                            e = rivia::verif::set_max_descriptors(e, m);
                        }
                        let mut out = vec![];
                        let mut n = 0;
                        for x in e {
                            n += 1;
                            if n > 5000 {
                                out.push("TOO-MANY".to_string());
                                break;
                            }
                            match x {
                                Ok(x) => {
                                    use std::os::unix::ffi::OsStrExt;
                                    out.push(hex(x.path().as_os_str().as_bytes()))
                                },
                                Err(err) => {
                                    out.push(format!("E{}", err_kind(&err)));
                                    break;
                                },
                            }
                        }
                        Ok(out)
                    })();
                    match r {
                        Ok(mut l) => {
                            if order == "u" {
                                l.sort();
                            }
                            format!("ok t:{}", l.join(","))
                        },
                        Err(e) => format!("err {}", err_kind(&e)),
                    }
                }))
            },
            // assert <macro> args...: run an assert_vfs_* macro under catch_unwind
            ("assert", _) if !a.is_empty() => {
                let mac = a[0].to_string();
                let s1 = |i: usize| -> Option<String> { arg_str(a.get(i)?) };
                let p1 = s1(1)?;
                let p2 = if a.len() > 2 { Some(a[2].to_string()) } else { None };
                let msg = std::sync::Arc::new(std::sync::Mutex::new(String::new()));
                let msg2 = msg.clone();
                let prev = std::panic::take_hook();
                std::panic::set_hook(Box::new(move |info| {
                    let m = if let Some(s) = info.payload().downcast_ref::<String>() { s.clone() } else if let Some(s) = info.payload().downcast_ref::<&str>() { s.to_string() } else { "?".to_string() };
                    *msg2.lock().unwrap() = m;
                }));
                let r = on_vfs!(self, v, std::panic::catch_unwind(std::panic::AssertUnwindSafe(|| -> Option<()> {
                    match mac.as_str() {
                        "exists" => { assert_vfs_exists!(v, &p1); },
                        "no_exists" => { assert_vfs_no_exists!(v, &p1); },
                        "is_dir" => { assert_vfs_is_dir!(v, &p1); },
                        "no_dir" => { assert_vfs_no_dir!(v, &p1); },
                        "is_file" => { assert_vfs_is_file!(v, &p1); },
                        "no_file" => { assert_vfs_no_file!(v, &p1); },
                        "is_symlink" => { assert_vfs_is_symlink!(v, &p1); },
                        "no_symlink" => { assert_vfs_no_symlink!(v, &p1); },
                        "read_all" => { let d = arg_str(p2.as_ref()?)?; assert_vfs_read_all!(v, &p1, d); },
                        "readlink" => { let d = PathBuf::from(arg_str(p2.as_ref()?)?); assert_vfs_readlink!(v, &p1, d); },
                        "readlink_abs" => { let d = arg_str(p2.as_ref()?)?; assert_vfs_readlink_abs!(v, &p1, &d); },
                        "mkdir_p" => { assert_vfs_mkdir_p!(v, &p1); },
                        "mkdir_m" => { let m = oct(p2.as_ref()?)?; assert_vfs_mkdir_m!(v, &p1, m); },
                        "mkfile" => { assert_vfs_mkfile!(v, &p1); },
                        "write_all" => { let d = arg_bytes(p2.as_ref()?)?; assert_vfs_write_all!(v, &p1, &d); },
                        "copyfile" => { let d = arg_str(p2.as_ref()?)?; assert_vfs_copyfile!(v, &p1, &d); },
                        "symlink" => { let d = arg_str(p2.as_ref()?)?; assert_vfs_symlink!(v, &p1, &d); },
                        "remove" => { assert_vfs_remove!(v, &p1); },
                        "remove_all" => { assert_vfs_remove_all!(v, &p1); },
                        _ => return None,
                    }
                    Some(())
                })));
                std::panic::set_hook(prev);
                match r {
                    Ok(Some(())) => "ok pass".to_string(),
                    Ok(None) => return None,
                    Err(_) => {
                        let m = msg.lock().unwrap().clone();
                        let t = m.trim_start_matches('\n');
                        let (name, rest) = match t.split_once(": ") { Some(x) => x, None => (t, "") };
                        let text = rest.split('\n').next().unwrap_or("");
                        let structured = m.starts_with('\n') && m.contains("\n  target: ");
                        let absd = on_vfs!(self, v, v.abs(&p1).map(|x| format!("{:?}", x)).unwrap_or_else(|_| format!("{:?}", p1)));
                        let second = p2.as_ref().and_then(|x| arg_str(x)).map(|x| format!("{:?}", x)).unwrap_or_else(|| "\u{0}".to_string());
                        let second_abs = p2.as_ref().and_then(|x| arg_str(x)).and_then(|x| on_vfs!(self, v, v.abs(&x).ok())).map(|x| format!("{:?}", x)).unwrap_or_else(|| "\u{0}".to_string());
                        let absp = on_vfs!(self, v, v.abs(&p1).map(|x| x.to_string_lossy().to_string()).unwrap_or_else(|_| p1.clone()));
                        let anc_named = {
                            // an error raised by the vfs call names the offending path, possibly an ancestor of the target
                            let mut q = std::path::PathBuf::from(&absp);
                            let mut hit = false;
                            loop {
                                let qs = q.to_string_lossy().to_string();
                                if qs.len() > 1 && m.contains(&qs) {
                                    hit = true;
                                    break;
                                }
                                if !q.pop() {
                                    break;
                                }
                            }
                            hit
                        };
                        let names_path = (!structured && !absp.is_empty() && (m.contains(&absp) || anc_named)) || m.contains(&absd) || m.contains(&format!("{:?}", p1)) || m.contains(&second) || m.contains(&second_abs);
                        format!("ok panic|{}|{}{}", name, if structured { hex(text.as_bytes()) } else { "ERR".to_string() }, if names_path { "" } else { "|nopath" })
                    },
                }
            },
            // handles: h_write <id> x<path> | h_append <id> x<path> | h_put <id> x<chunk> | h_flush <id> | h_drop <id>
            ("h_write", 2) => {
                let (id, p) = (a[0].parse::<u64>().ok()?, s(1)?);
                let r = on_vfs!(self, v, std::panic::catch_unwind(std::panic::AssertUnwindSafe(|| v.write(&p))));
                match r {
                    Ok(Ok(h)) => { self.handles.insert(id, h); "ok u".to_string() },
                    Ok(Err(e)) => format!("err {}", err_kind(&e)),
                    Err(_) => "panic".to_string(),
                }
            },
            ("h_append", 2) => {
                let (id, p) = (a[0].parse::<u64>().ok()?, s(1)?);
                let r = on_vfs!(self, v, std::panic::catch_unwind(std::panic::AssertUnwindSafe(|| v.append(&p))));
                match r {
                    Ok(Ok(h)) => { self.handles.insert(id, h); "ok u".to_string() },
                    Ok(Err(e)) => format!("err {}", err_kind(&e)),
                    Err(_) => "panic".to_string(),
                }
            },
            ("h_put", 2) => {
                let (id, d) = (a[0].parse::<u64>().ok()?, arg_bytes(a[1])?);
                match self.handles.get_mut(&id) {
                    Some(h) => match h.write_all(&d) { Ok(_) => "ok u".to_string(), Err(e) => format!("err {}", io_kind(e.kind())) },
                    None => "ok u".to_string(),
                }
            },
            ("h_flush", 1) => {
                let id = a[0].parse::<u64>().ok()?;
                match self.handles.get_mut(&id) {
                    Some(h) => match h.flush() { Ok(_) => "ok u".to_string(), Err(e) => format!("err {}", io_kind(e.kind())) },
                    None => "ok u".to_string(),
                }
            },
            ("h_drop", 1) => {
                let id = a[0].parse::<u64>().ok()?;
                self.handles.remove(&id);
                "ok u".to_string()
            },
            _ => return None,
        };
        Some(out)
    }
}

/// run a whole session script read from stdin. Lines: `new e<env>` | `newvfs e<env>` | `<op> args`
pub fn run<R: std::io::BufRead, W: IoWrite>(input: R, out: &mut W) {
    let mut sess = Session::new();
    let mut dead = false; // after a hang/poison the rest of the history is skipped
    for line in input.lines() {
        let line = line.unwrap();
        let toks: Vec<&str> = line.trim().split(' ').collect();
        if toks.is_empty() {
            writeln!(out, "bad-op").unwrap();
            continue;
        }
        if toks[0] == "new" || toks[0] == "newvfs" {
            dead = false;
            let ok = toks.len() == 2 && sess.reset(toks[1], toks[0] == "newvfs").is_some();
            writeln!(out, "{}", if ok { "ok new" } else { "bad-op" }).unwrap();
            continue;
        }
        if dead {
            writeln!(out, "skipped").unwrap();
            continue;
        }
        match sess.op(toks[0], &toks[1..]) {
            Some(r) => {
                let d = dump(&sess.vfs);
                if d == "poisoned" {
                    dead = true;
                }
                writeln!(out, "{} ## {}", r, d).unwrap();
            },
            None => writeln!(out, "bad-op").unwrap(),
        }
    }
}
