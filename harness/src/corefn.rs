// core helpers (iterators, strings, option, take_while_p), handle ops, chmod mode machine, XDG lookups
use crate::pathfn::apply_env;
use crate::util::*;
use rivia::prelude::*;

fn show_ints(v: &[i64]) -> String {
    format!("i:{}", v.iter().map(|x| x.to_string()).collect::<Vec<_>>().join(","))
}

// defer programs (C19): items `d` = defer!(log.push(next label)), `{` `}` = nested block, `r` = early return, `p` = panic.
// Every `d` is a real `defer!` guard living in a stack frame of this interpreter, so the order in which the closures
// run is decided by Rust's drop semantics (scope end, return, unwinding), not by this code.
enum Flow {
    End,           // the program text ended: the function returns normally
    Closed(usize), // the current block was closed; continue at this position in the enclosing block
    Ret,           // early return
}

fn defer_block(prog: &[u8], mut i: usize, next: &std::cell::Cell<u32>, log: &std::cell::RefCell<Vec<u32>>) -> Flow {
    loop {
        if i >= prog.len() {
            return Flow::End;
        }
        match prog[i] {
            b'd' => {
                let k = next.get();
                next.set(k + 1);
                // both body shapes the macro accepts: a single expression, and a sequence of statements
                if k % 2 == 0 {
                    defer!(log.borrow_mut().push(k));
                    return defer_block(prog, i + 1, next, log);
                } else {
                    defer! {
                        let v = k;
                        log.borrow_mut().push(v);
                    }
                    return defer_block(prog, i + 1, next, log);
                }
            },
            b'{' => match defer_block(prog, i + 1, next, log) {
                Flow::Closed(j) => i = j,
                other => return other,
            },
            b'}' => return Flow::Closed(i + 1),
            b'r' => return Flow::Ret,
            b'p' => panic!("defer program panic"),
            _ => i += 1,
        }
    }
}

fn defer_run(prog: &str) -> String {
    let next = std::cell::Cell::new(0u32);
    let log = std::cell::RefCell::new(Vec::<u32>::new());
    let prev = std::panic::take_hook();
    std::panic::set_hook(Box::new(|_| {}));
    let r = std::panic::catch_unwind(std::panic::AssertUnwindSafe(|| defer_block(prog.as_bytes(), 0, &next, &log)));
    std::panic::set_hook(prev);
    let ending = match r {
        Ok(Flow::End) | Ok(Flow::Closed(_)) => "n",
        Ok(Flow::Ret) => "r",
        Err(_) => "p",
    };
    format!("ok d:{}|{}", log.borrow().iter().map(|x| x.to_string()).collect::<Vec<_>>().join(","), ending)
}

fn items(len: i64) -> std::ops::Range<i64> {
    0..len
}

pub fn call(fnname: &str, args: &[&str], touched: &mut Vec<String>) -> Option<String> {
    let int = |i: usize| -> Option<i64> { args.get(i)?.parse::<i64>().ok() };
    let s = |i: usize| -> Option<String> { arg_str(args.get(i)?) };
    let out = match (fnname, args.len()) {
        ("it_drop", 2) => { let (len, n) = (int(0)?, int(1)?); guarded(|| format!("ok {}", show_ints(&items(len).drop(n as isize).collect::<Vec<_>>()))) },
        ("it_slice", 3) => { let (len, l, r) = (int(0)?, int(1)?, int(2)?); guarded(|| format!("ok {}", show_ints(&items(len).slice(l as isize, r as isize).collect::<Vec<_>>()))) },
        ("it_consume", 1) => { let len = int(0)?; guarded(|| format!("ok {}", show_ints(&items(len).consume().collect::<Vec<_>>()))) },
        ("it_first", 1) => { let len = int(0)?; guarded(|| match items(len).first() { Some(x) => format!("ok o:{}", x), None => "ok o:-".to_string() }) },
        ("it_first_result", 1) => { let len = int(0)?; guarded(|| show_res(items(len).first_result(), |x| format!("n:{}", x))) },
        ("it_last_result", 1) => { let len = int(0)?; guarded(|| show_res(items(len).last_result(), |x| format!("n:{}", x))) },
        ("it_single", 1) => { let len = int(0)?; guarded(|| show_res(items(len).single(), |x| format!("n:{}", x))) },
        ("it_some", 1) => { let len = int(0)?; guarded(|| format!("ok {}", show_bool(items(len).some()))) },
        ("defer", 1) => { let a = s(0)?; defer_run(&a) },
        ("str_size", 1) => { let a = s(0)?; guarded(|| format!("ok n:{}", a.size())) },
        ("str_to_bool", 1) => { let a = s(0)?; guarded(|| format!("ok {}", show_bool(a.to_bool()))) },
        ("str_trim_suffix", 2) => { let (a, b) = (s(0)?, s(1)?); guarded(|| format!("ok {}", show_str(&a.trim_suffix(b.clone())))) },
        // opt_has <-|int> <int>
        ("opt_has", 2) => {
            let o: Option<i64> = if args[0] == "-" { None } else { Some(int(0)?) };
            let x = int(1)?;
            guarded(|| format!("ok {}", show_bool(o.has(x))))
        },
        // take_while_p x<string> x<allowed chars>: prefix taken, then what the iterator still yields
        ("take_while_p", 2) => {
            let (a, allowed) = (s(0)?, s(1)?);
            guarded(|| {
                let mut it = a.chars().peekable();
                let taken: String = it.take_while_p(|c| allowed.contains(*c)).collect();
                let rest: String = it.collect();
                format!("ok l:{},{}", hex(taken.as_bytes()), hex(rest.as_bytes()))
            })
        },
        // file x<data> <op,op,...>   ops: r<n> | ss<off> | sc<off> | se<off> | a (read_to_end)
        ("file", 2) => {
            let data = arg_bytes(args[0])?;
            let ops: Vec<String> = args[1].split(',').map(|x| x.to_string()).collect();
            guarded(|| {
                let vfs = Memfs::new();
                vfs.write_all("/f", &data).unwrap();
                let mut out: Vec<String> = vec![];
                let mut h = vfs.read("/f").unwrap();
                for op in ops.iter() {
                    let r = std::panic::catch_unwind(std::panic::AssertUnwindSafe(|| -> String {
                        if let Some(n) = op.strip_prefix('r') {
                            let n: usize = n.parse().unwrap();
                            let mut buf = vec![0u8; n];
                            match h.read(&mut buf) {
                                Ok(k) => format!("r:{}", hex(&buf[..k])),
                                Err(e) => format!("e:{}", io_kind(e.kind())),
                            }
                        } else if op == "a" {
                            let mut buf = vec![];
                            match h.read_to_end(&mut buf) {
                                Ok(_) => format!("r:{}", hex(&buf)),
                                Err(e) => format!("e:{}", io_kind(e.kind())),
                            }
                        } else {
                            let (w, off) = op.split_at(2);
                            let pos = match w {
                                "ss" => SeekFrom::Start(off.parse::<u64>().unwrap()),
                                "sc" => SeekFrom::Current(off.parse::<i64>().unwrap()),
                                _ => SeekFrom::End(off.parse::<i64>().unwrap()),
                            };
                            match h.seek(pos) {
                                Ok(p) => format!("k:{}", p),
                                Err(e) => format!("e:{}", io_kind(e.kind())),
                            }
                        }
                    }));
                    match r {
                        Ok(x) => out.push(x),
                        Err(_) => {
                            out.push("P".to_string());
                            break;
                        },
                    }
                }
                format!("ok {}", out.join(";"))
            })
        },
        // whandle <w|a> x<old> <op,op,...>   ops: w<hex> write chunk | f flush ; the handle is dropped at the end.
        // Output: stored content of the file after each op and after the drop.
        ("whandle", 3) => {
            let old = arg_bytes(args[1])?;
            let append = args[0] == "a";
            let ops: Vec<String> = args[2].split(',').map(|x| x.to_string()).collect();
            guarded(|| {
                let vfs = Memfs::new();
                vfs.write_all("/f", &old).unwrap();
                let stored = |vfs: &Memfs| -> String {
                    let mut buf = vec![];
                    vfs.read("/f").unwrap().read_to_end(&mut buf).unwrap();
                    hex(&buf)
                };
                let mut out: Vec<String> = vec![];
                {
                    let mut h = if append { vfs.append("/f").unwrap() } else { vfs.write("/f").unwrap() };
                    for op in ops.iter() {
                        if op == "f" {
                            h.flush().unwrap();
                        } else if let Some(hx) = op.strip_prefix('w') {
                            h.write_all(&unhex(hx).unwrap()).unwrap();
                        }
                        out.push(stored(&vfs));
                    }
                }
                out.push(stored(&vfs));
                format!("ok {}", out.join(";"))
            })
        },
        // the same op sequence on std::io::Cursor (reference for the handle contract)
        ("cursor", 2) => {
            let data = arg_bytes(args[0])?;
            let ops: Vec<String> = args[1].split(',').map(|x| x.to_string()).collect();
            guarded(|| {
                let mut out: Vec<String> = vec![];
                let mut h = std::io::Cursor::new(data.clone());
                for op in ops.iter() {
                    if let Some(n) = op.strip_prefix('r') {
                        let n: usize = n.parse().unwrap();
                        let mut buf = vec![0u8; n];
                        match h.read(&mut buf) {
                            Ok(k) => out.push(format!("r:{}", hex(&buf[..k]))),
                            Err(e) => out.push(format!("e:{}", io_kind(e.kind()))),
                        }
                    } else if op == "a" {
                        let mut buf = vec![];
                        match h.read_to_end(&mut buf) {
                            Ok(_) => out.push(format!("r:{}", hex(&buf))),
                            Err(e) => out.push(format!("e:{}", io_kind(e.kind()))),
                        }
                    } else {
                        let (w, off) = op.split_at(2);
                        let pos = match w {
                            "ss" => SeekFrom::Start(off.parse::<u64>().unwrap()),
                            "sc" => SeekFrom::Current(off.parse::<i64>().unwrap()),
                            _ => SeekFrom::End(off.parse::<i64>().unwrap()),
                        };
                        match h.seek(pos) {
                            Ok(p) => out.push(format!("k:{}", p)),
                            Err(e) => out.push(format!("e:{}", io_kind(e.kind()))),
                        }
                    }
                }
                format!("ok {}", out.join(";"))
            })
        },
        // mode <d|f|l|D|F> <cur octal> <octal> x<sym>   (D/F = link to dir / link to file)
        ("mode", 4) => {
            let (dir, file, link) = match args[0] {
                "d" => (true, false, false),
                "f" => (false, true, false),
                "D" => (true, false, true),
                "F" => (false, true, true),
                _ => return None,
            };
            let cur = u32::from_str_radix(args[1], 8).ok()?;
            let oct = u32::from_str_radix(args[2], 8).ok()?;
            let sym = s(3)?;
            guarded(|| {
                let e = rivia::verif::make_entry("/x", dir, file, link, cur);
                show_res(rivia::verif::chmod_mode(&e, oct, &sym), |x| format!("n:{}", x))
            })
        },
        ("revoking", 2) => {
            let (a, b) = (u32::from_str_radix(args[0], 8).ok()?, u32::from_str_radix(args[1], 8).ok()?);
            guarded(|| format!("ok {}", show_bool(rivia::verif::revoking_mode(a, b))))
        },
        // xdg <which> e<env>
        ("xdg", 2) => {
            apply_env(args[1], touched)?;
            let which = args[0].to_string();
            guarded(|| match which.as_str() {
                "config_dir" => show_res(user::config_dir(), |x| show_path(x)),
                "cache_dir" => show_res(user::cache_dir(), |x| show_path(x)),
                "data_dir" => show_res(user::data_dir(), |x| show_path(x)),
                "state_dir" => show_res(user::state_dir(), |x| show_path(x)),
                "runtime_dir" => format!("ok {}", show_path(&user::runtime_dir())),
                "sys_data_dirs" => show_res(user::sys_data_dirs(), |x| show_paths(x)),
                "sys_config_dirs" => show_res(user::sys_config_dirs(), |x| show_paths(x)),
                "path_dirs" => show_res(user::path_dirs(), |x| show_paths(x)),
                "home_dir" => show_res(user::home_dir(), |x| show_path(x)),
                _ => "bad-op".to_string(),
            })
        },
        // getrids <uid> <gid> e<env>
        ("getrids", 3) => {
            let (u, g) = (int(0)? as u32, int(1)? as u32);
            apply_env(args[2], touched)?;
            guarded(|| {
                let (a, b) = user::getrids(u, g);
                format!("ok i:{},{}", a, b)
            })
        },
        // vfs_config_dir x<name> x<':'-joined absolute dirs that contain name> e<env>   (on a Memfs)
        ("vfs_config_dir", 3) => {
            let (name, dirs) = (s(0)?, s(1)?);
            apply_env(args[2], touched)?;
            guarded(|| {
                let vfs = Memfs::new();
                for d in dirs.split(':').filter(|x| !x.is_empty()) {
                    if vfs.mkdir_p(d).is_err() {
                        return "bad-setup".to_string();
                    }
                    if vfs.mkfile(sys::mash(d, &name)).is_err() {
                        return "bad-setup".to_string();
                    }
                }
                match vfs.config_dir(&name) {
                    Some(p) => format!("ok o:{}", show_path(&p)),
                    None => "ok o:-".to_string(),
                }
            })
        },
        _ => return None,
    };
    Some(out)
}
