// Sessions against the real-filesystem backend (Stdfs) confined to a sandbox directory (C02).
// The process chroots into a fresh sandbox directory, which then is `/`. After every op an independent observer (std::fs only: lstat / readlink / read)
// dumps the sandbox in the abstract format `key:kind:perm:target:data`.
use crate::util::*;
use rivia::prelude::*;
use std::io::Write as IoWrite;
use std::os::unix::fs::PermissionsExt;

pub struct Sbx {
    pub root: PathBuf,
    n: u64,
}

fn hexs(s: &str) -> String {
    hex(s.as_bytes())
}

impl Sbx {
    /// the process confines itself to a fresh directory with chroot(2): inside, the sandbox directory
    /// IS `/` (so `..` at the root stays at the root and absolute link texts need no translation)
    pub fn new() -> Self {
        let base = PathBuf::from(format!("/verif/work/sbx/{}", std::process::id()));
        let _ = std::fs::remove_dir_all(&base);
        std::fs::create_dir_all(&base).unwrap();
        let c = std::ffi::CString::new(base.to_string_lossy().as_bytes()).unwrap();
        let rc = unsafe { libc_chroot(c.as_ptr()) };
        if rc != 0 {
            eprintln!("chroot failed");
            std::process::exit(3);
        }
        std::env::set_current_dir("/").unwrap();
        Sbx { root: PathBuf::from("/"), n: 0 }
    }

    pub fn fresh(&mut self) {
        // make everything removable again, then empty the root
        self.n += 1;
        std::env::set_current_dir("/").unwrap();
        let _ = chmod_tree(Path::new("/"));
        if let Ok(rd) = std::fs::read_dir("/") {
            for e in rd.flatten() {
                let p = e.path();
                let is_dir = std::fs::symlink_metadata(&p).map(|m| m.is_dir()).unwrap_or(false);
                let _ = if is_dir { std::fs::remove_dir_all(&p) } else { std::fs::remove_file(&p) };
            }
        }
        std::fs::set_permissions("/", std::fs::Permissions::from_mode(0o755)).unwrap();
    }

    /// request paths are used as they are
    pub fn inp(&self, p: &str) -> String {
        p.to_string()
    }

    /// returned paths are shown as they are
    pub fn outp(&self, p: &Path) -> String {
        p.to_string_lossy().to_string()
    }

    pub fn dump(&self) -> String {
        let mut recs: Vec<(Vec<Vec<u8>>, String)> = vec![];
        let cwd = std::env::current_dir().map(|c| self.outp(&c)).unwrap_or_else(|_| "?".to_string());
        fn walk(sb: &Sbx, p: &Path, recs: &mut Vec<(Vec<Vec<u8>>, String)>) {
            let meta = match std::fs::symlink_metadata(p) {
                Ok(m) => m,
                Err(_) => return,
            };
            let key = sb.outp(p);
            let comps: Vec<Vec<u8>> = key.split('/').filter(|x| !x.is_empty()).map(|x| x.as_bytes().to_vec()).collect();
            let perm = meta.permissions().mode() & 0o7777;
            let ft = meta.file_type();
            if ft.is_symlink() {
                let t = std::fs::read_link(p).unwrap_or_default();
                let abs = if t.is_absolute() { t.clone() } else { p.parent().unwrap().join(&t) };
                let abs = sys::clean(abs);
                recs.push((comps, format!("{}:l:777:{}:", hexs(&key), hexs(&sb.outp(&abs)))));
            } else if ft.is_dir() {
                recs.push((comps, format!("{}:d:{:o}:-:", hexs(&key), perm)));
                // make it listable for the observer (root can always read)
                if let Ok(rd) = std::fs::read_dir(p) {
                    let mut names: Vec<PathBuf> = rd.filter_map(|e| e.ok()).map(|e| e.path()).collect();
                    names.sort();
                    for c in names {
                        walk(sb, &c, recs);
                    }
                }
            } else {
                let data = std::fs::read(p).unwrap_or_default();
                recs.push((comps, format!("{}:f:{:o}:-:{}", hexs(&key), perm, hex(&data))));
            }
        }
        walk(self, &self.root, &mut recs);
        recs.sort_by(|a, b| a.0.cmp(&b.0));
        let mut out = vec![format!("cwd={}", hexs(&cwd))];
        out.extend(recs.into_iter().map(|x| x.1));
        out.join("|")
    }
}

fn chmod_tree(p: &Path) -> std::io::Result<()> {
    let m = std::fs::symlink_metadata(p)?;
    if m.file_type().is_symlink() {
        return Ok(());
    }
    if m.is_dir() {
        std::fs::set_permissions(p, std::fs::Permissions::from_mode(0o755))?;
        for e in std::fs::read_dir(p)? {
            let _ = chmod_tree(&e?.path());
        }
    }
    Ok(())
}

fn lines_arg(a: &str) -> Option<Vec<String>> {
    let body = a.strip_prefix("l:")?;
    if body.is_empty() {
        return Some(vec![]);
    }
    body.split(',').map(|h| String::from_utf8(unhex(h)?).ok()).collect()
}

fn oct(a: &str) -> Option<u32> {
    u32::from_str_radix(a, 8).ok()
}

pub fn op(sb: &Sbx, v: &Stdfs, name: &str, a: &[&str]) -> Option<String> {
    let s = |i: usize| -> Option<String> { arg_str(a.get(i)?).map(|p| sb.inp(&p)) };
    let raw = |i: usize| -> Option<String> { arg_str(a.get(i)?) };
    let sp = |x: &PathBuf| format!("s:{}", hexs(&sb.outp(x)));
    let sps = |x: &Vec<PathBuf>| format!("l:{}", x.iter().map(|p| hexs(&sb.outp(p))).collect::<Vec<_>>().join(","));
    let out: String = match (name, a.len()) {
        ("mkfile", 1) => { let p = s(0)?; guarded(|| show_res(v.mkfile(&p), sp)) },
        ("mkfile_m", 2) => { let (p, m) = (s(0)?, oct(a[1])?); guarded(|| show_res(v.mkfile_m(&p, m), sp)) },
        ("mkdir_p", 1) => { let p = s(0)?; guarded(|| show_res(v.mkdir_p(&p), sp)) },
        ("mkdir_m", 2) => { let (p, m) = (s(0)?, oct(a[1])?); guarded(|| show_res(v.mkdir_m(&p, m), sp)) },
        ("write_all", 2) => { let (p, d) = (s(0)?, arg_bytes(a[1])?); guarded(|| show_res(v.write_all(&p, &d), |_| "u".to_string())) },
        ("append_all", 2) => { let (p, d) = (s(0)?, arg_bytes(a[1])?); guarded(|| show_res(v.append_all(&p, &d), |_| "u".to_string())) },
        ("write_lines", 2) => { let (p, l) = (s(0)?, lines_arg(a[1])?); guarded(|| show_res(v.write_lines(&p, &l), |_| "u".to_string())) },
        ("append_lines", 2) => { let (p, l) = (s(0)?, lines_arg(a[1])?); guarded(|| show_res(v.append_lines(&p, &l), |_| "u".to_string())) },
        ("append_line", 2) => { let (p, l) = (s(0)?, raw(1)?); guarded(|| show_res(v.append_line(&p, &l), |_| "u".to_string())) },
        ("read_all", 1) => { let p = s(0)?; guarded(|| show_res(v.read_all(&p), |x| show_str(x))) },
        ("read_lines", 1) => { let p = s(0)?; guarded(|| show_res(v.read_lines(&p), |x| show_strs(x))) },
        ("read", 1) => {
            let p = s(0)?;
            guarded(|| match v.read(&p) {
                Ok(mut h) => {
                    let mut buf = vec![];
                    match h.read_to_end(&mut buf) {
                        Ok(_) => format!("ok x:{}", hex(&buf)),
                        Err(e) => format!("err {}", io_kind(e.kind())),
                    }
                },
                Err(e) => format!("err {}", err_kind(&e)),
            })
        },
        ("remove", 1) => { let p = s(0)?; guarded(|| show_res(v.remove(&p), |_| "u".to_string())) },
        ("remove_all", 1) => { let p = s(0)?; guarded(|| show_res(v.remove_all(&p), |_| "u".to_string())) },
        ("symlink", 2) => { let (l, t) = (s(0)?, s(1)?); guarded(|| show_res(v.symlink(&l, &t), sp)) },
        // the link text: an absolute text lives inside the sandbox and is mapped back like every returned path
        ("readlink", 1) => { let p = s(0)?; guarded(|| show_res(v.readlink(&p), |x| if x.is_absolute() { format!("s:{}", hexs(&sb.outp(x))) } else { show_path(x) })) },
        ("readlink_abs", 1) => { let p = s(0)?; guarded(|| show_res(v.readlink_abs(&p), sp)) },
        ("set_cwd", 1) => { let p = s(0)?; guarded(|| show_res(v.set_cwd(&p), sp)) },
        ("cwd", 0) => guarded(|| show_res(v.cwd(), sp)),
        ("abs", 1) => { let p = s(0)?; guarded(|| show_res(v.abs(&p), sp)) },
        ("exists", 1) => { let p = s(0)?; guarded(|| format!("ok {}", show_bool(v.exists(&p)))) },
        ("is_file", 1) => { let p = s(0)?; guarded(|| format!("ok {}", show_bool(v.is_file(&p)))) },
        ("is_dir", 1) => { let p = s(0)?; guarded(|| format!("ok {}", show_bool(v.is_dir(&p)))) },
        ("is_symlink", 1) => { let p = s(0)?; guarded(|| format!("ok {}", show_bool(v.is_symlink(&p)))) },
        ("is_symlink_dir", 1) => { let p = s(0)?; guarded(|| format!("ok {}", show_bool(v.is_symlink_dir(&p)))) },
        ("is_symlink_file", 1) => { let p = s(0)?; guarded(|| format!("ok {}", show_bool(v.is_symlink_file(&p)))) },
        ("is_exec", 1) => { let p = s(0)?; guarded(|| format!("ok {}", show_bool(v.is_exec(&p)))) },
        ("is_readonly", 1) => { let p = s(0)?; guarded(|| format!("ok {}", show_bool(v.is_readonly(&p)))) },
        ("mode", 1) => { let p = s(0)?; guarded(|| show_res(v.mode(&p), |x| format!("n:{}", x))) },
        ("paths", 1) => { let p = s(0)?; guarded(|| show_res(v.paths(&p), sps)) },
        ("dirs", 1) => { let p = s(0)?; guarded(|| show_res(v.dirs(&p), sps)) },
        ("files", 1) => { let p = s(0)?; guarded(|| show_res(v.files(&p), sps)) },
        ("all_paths", 1) => { let p = s(0)?; guarded(|| show_res(v.all_paths(&p), sps)) },
        ("all_dirs", 1) => { let p = s(0)?; guarded(|| show_res(v.all_dirs(&p), sps)) },
        ("all_files", 1) => { let p = s(0)?; guarded(|| show_res(v.all_files(&p), sps)) },
        ("chmod", 2) => { let (p, m) = (s(0)?, oct(a[1])?); guarded(|| show_res(v.chmod(&p, m), |_| "u".to_string())) },
        ("copy", 2) => { let (x, y) = (s(0)?, s(1)?); guarded(|| show_res(v.copy(&x, &y), |_| "u".to_string())) },
        ("move_p", 2) => { let (x, y) = (s(0)?, s(1)?); guarded(|| show_res(v.move_p(&x, &y), |_| "u".to_string())) },
        // assert <macro> x<path> [arg]: an assert_vfs_* macro on the Stdfs backend under catch_unwind
        ("assert", _) if !a.is_empty() => {
            let mac = a[0].to_string();
            let p1 = arg_str(a.get(1)?)?;
            let p2 = if a.len() > 2 { Some(a[2].to_string()) } else { None };
            let msg = std::sync::Arc::new(std::sync::Mutex::new(String::new()));
            let msg2 = msg.clone();
            let prev = std::panic::take_hook();
            std::panic::set_hook(Box::new(move |info| {
                let m = if let Some(s) = info.payload().downcast_ref::<String>() { s.clone() } else if let Some(s) = info.payload().downcast_ref::<&str>() { s.to_string() } else { "?".to_string() };
                *msg2.lock().unwrap() = m;
            }));
            let r = std::panic::catch_unwind(std::panic::AssertUnwindSafe(|| -> Option<()> {
                match mac.as_str() {
                    "exists" => { assert_vfs_exists!(v, &p1); },
                    "no_exists" => { assert_vfs_no_exists!(v, &p1); },
                    "is_dir" => { assert_vfs_is_dir!(v, &p1); },
                    "no_dir" => { assert_vfs_no_dir!(v, &p1); },
                    "is_file" => { assert_vfs_is_file!(v, &p1); },
                    "no_file" => { assert_vfs_no_file!(v, &p1); },
                    "is_symlink" => { assert_vfs_is_symlink!(v, &p1); },
                    "no_symlink" => { assert_vfs_no_symlink!(v, &p1); },
                    "read_all" => { let d = arg_str(p2.as_ref()?)?; assert_vfs_read_all!(v, &p1, d); },
                    "readlink" => { let d = PathBuf::from(arg_str(p2.as_ref()?)?); assert_vfs_readlink!(v, &p1, d); },
                    "readlink_abs" => { let d = arg_str(p2.as_ref()?)?; assert_vfs_readlink_abs!(v, &p1, &d); },
                    "mkdir_p" => { assert_vfs_mkdir_p!(v, &p1); },
                    "mkdir_m" => { let m = oct(p2.as_ref()?)?; assert_vfs_mkdir_m!(v, &p1, m); },
                    "mkfile" => { assert_vfs_mkfile!(v, &p1); },
                    "write_all" => { let d = arg_bytes(p2.as_ref()?)?; assert_vfs_write_all!(v, &p1, &d); },
                    "copyfile" => { let d = arg_str(p2.as_ref()?)?; assert_vfs_copyfile!(v, &p1, &d); },
                    "symlink" => { let d = arg_str(p2.as_ref()?)?; assert_vfs_symlink!(v, &p1, &d); },
                    "remove" => { assert_vfs_remove!(v, &p1); },
                    "remove_all" => { assert_vfs_remove_all!(v, &p1); },
                    _ => return None,
                }
                Some(())
            }));
            std::panic::set_hook(prev);
            match r {
                Ok(Some(())) => "ok pass".to_string(),
                Ok(None) => return None,
                Err(_) => {
                    let m = msg.lock().unwrap().clone();
                    let t = m.trim_start_matches('\n');
                    let (name, rest) = match t.split_once(": ") { Some(x) => x, None => (t, "") };
                    let text = rest.split('\n').next().unwrap_or("");
                    let structured = m.starts_with('\n') && m.contains("\n  target: ");
                    format!("ok panic|{}|{}", name, if structured { hex(text.as_bytes()) } else { "ERR".to_string() })
                },
            }
        },
        _ => {
            let _ = raw;
            return None;
        },
    };
    Some(out)
}

pub fn run<R: std::io::BufRead, W: IoWrite>(input: R, out: &mut W) {
    unsafe {
        libc_umask(0o022);
    }
    let mut sb = Sbx::new();
    let v = Stdfs::new();
    for line in input.lines() {
        let line = line.unwrap();
        let toks: Vec<&str> = line.trim().split(' ').collect();
        if toks[0] == "new" {
            sb.fresh();
            writeln!(out, "ok new").unwrap();
            continue;
        }
        match op(&sb, &v, toks[0], &toks[1..]) {
            Some(r) => writeln!(out, "{} ## {}", r, sb.dump()).unwrap(),
            None => writeln!(out, "bad-op").unwrap(),
        }
    }
    sb.fresh();
}

extern "C" {
    #[link_name = "umask"]
    fn libc_umask(mask: u32) -> u32;
    #[link_name = "chroot"]
    fn libc_chroot(path: *const std::os::raw::c_char) -> i32;
}
