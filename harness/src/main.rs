// /verif harness: calls the real rivia code in-process and prints one canonical line per request.
mod corefn;
mod memfs;
mod pathfn;
mod sched;
mod stdfs;
mod util;

use std::io::{BufRead, BufWriter, Write};

fn main() {
    util::silence_panics();
    let mode = std::env::args().nth(1).unwrap_or_default();
    let stdin = std::io::stdin();
    let stdout = std::io::stdout();
    let mut out = BufWriter::new(stdout.lock());
    match mode.as_str() {
        "pathfn" => {
            // the environment is part of the request: start from an empty one
            for (k, _) in std::env::vars_os() {
                std::env::remove_var(k);
            }
            let mut touched: Vec<String> = vec![];
            for line in stdin.lock().lines() {
                let line = line.unwrap();
                let toks: Vec<&str> = line.trim().split(' ').collect();
                let res = if toks.is_empty() {
                    None
                } else {
                    match pathfn::call(toks[0], &toks[1..], &mut touched) {
                        Some(x) => Some(x),
                        None => corefn::call(toks[0], &toks[1..], &mut touched),
                    }
                };
                writeln!(out, "{}", res.unwrap_or_else(|| "bad-op".to_string())).unwrap();
            }
        },
        "stdfs" => {
            // the environment (HOME) is fixed for sandbox sessions
            for (k, _) in std::env::vars_os() {
                std::env::remove_var(k);
            }
            std::env::set_var("HOME", "/h");
            drop(out);
            let mut o = std::io::LineWriter::new(std::io::stdout());
            stdfs::run(stdin.lock(), &mut o);
            return;
        },
        "sched" => {
            for (k, _) in std::env::vars_os() {
                std::env::remove_var(k);
            }
            for line in stdin.lock().lines() {
                let line = line.unwrap();
                let toks: Vec<&str> = line.trim().split(' ').collect();
                let res = if toks.len() >= 2 && toks[0] == "sched" { sched::call(&toks[1..]) } else { None };
                writeln!(out, "{}", res.unwrap_or_else(|| "bad-op".to_string())).unwrap();
            }
        },
        "memfs" => {
            for (k, _) in std::env::vars_os() {
                std::env::remove_var(k);
            }
            drop(out);
            // unbuffered: the controller needs the lines written before a hang
            let mut o = std::io::LineWriter::new(std::io::stdout());
            memfs::run(stdin.lock(), &mut o);
            return;
        },
        _ => {
            eprintln!("usage: harness <pathfn|...>");
            std::process::exit(2);
        },
    }
    out.flush().unwrap();
}
