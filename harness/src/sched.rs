// Controlled scheduler for Memfs (C04): threads park at every lock acquisition (guard hook) and a
// controller grants one thread at a time, so a schedule is a sequence of thread ids, one per
// critical section. All schedules of a small program are enumerated by re-execution.
use crate::memfs::{dump, Session};
use rivia::prelude::*;
use rivia::verif::{set_guard_hook, GuardEvent, GuardKind};
use std::cell::Cell;
use std::sync::mpsc::{channel, Receiver, Sender};
use std::sync::{Arc, Mutex};
use std::time::Duration;

thread_local! {
    static TID: Cell<i32> = Cell::new(-1);
}

enum Ev {
    Before(usize, GuardKind),
    Released(usize),
    CallDone(usize, usize, String), // tid, call index, result
    Finished(usize),
}

struct Ctl {
    to_ctl: Sender<Ev>,
    go: Vec<Mutex<Receiver<()>>>,
}

fn parse_ops(s: &str) -> Vec<Vec<String>> {
    if s.is_empty() {
        return vec![];
    }
    s.split('~').map(|op| op.split('+').map(|t| t.to_string()).collect()).collect()
}

pub struct Outcome {
    pub schedule: Vec<usize>,
    pub trace: String,           // e.g. "0W 1W 0W"
    pub calls: Vec<Vec<String>>, // per thread: "<result> @<first section>-<last section> <kinds>"
    pub final_dump: String,
    pub problem: Option<String>, // hang / nested acquisition / panic
}

/// run the program once under the given schedule prefix; when the prefix is exhausted the lowest
/// runnable thread id is chosen. Returns the outcome and, for every decision point, the set of
/// runnable threads (for the enumeration).
fn run_once(env: &str, setup: &[Vec<String>], threads: &[Vec<Vec<String>>], prefix: &[usize]) -> (Outcome, Vec<Vec<usize>>) {
    let mut base = Session::new();
    base.reset(env, false);
    for op in setup {
        let a: Vec<&str> = op[1..].iter().map(|x| x.as_str()).collect();
        base.op(&op[0], &a);
    }
    let n = threads.len();
    let (to_ctl, from_workers) = channel::<Ev>();
    let mut go_tx = vec![];
    let mut go_rx = vec![];
    for _ in 0..n {
        let (tx, rx) = channel::<()>();
        go_tx.push(tx);
        go_rx.push(Mutex::new(rx));
    }
    let ctl = Arc::new(Ctl { to_ctl: to_ctl.clone(), go: go_rx });
    let hook_ctl = ctl.clone();
    set_guard_hook(Some(Arc::new(move |ev: GuardEvent| {
        let tid = TID.with(|t| t.get());
        if tid < 0 {
            return;
        }
        let tid = tid as usize;
        match ev {
            GuardEvent::BeforeAcquire(k) => {
                let _ = hook_ctl.to_ctl.send(Ev::Before(tid, k));
                // park until granted
                let _ = hook_ctl.go[tid].lock().unwrap().recv();
            },
            GuardEvent::Released(_) => {
                let _ = hook_ctl.to_ctl.send(Ev::Released(tid));
            },
            _ => {},
        }
    })));

    let mut handles = vec![];
    for (tid, calls) in threads.iter().enumerate() {
        let vfs = rivia::verif::memfs_share(&base.vfs);
        let calls = calls.clone();
        let tx = to_ctl.clone();
        handles.push(std::thread::spawn(move || {
            TID.with(|t| t.set(tid as i32));
            let mut sess = Session::new();
            sess.vfs = vfs;
            for (ci, op) in calls.iter().enumerate() {
                let a: Vec<&str> = op[1..].iter().map(|x| x.as_str()).collect();
                let r = sess.op(&op[0], &a).unwrap_or_else(|| "bad-op".to_string());
                let _ = tx.send(Ev::CallDone(tid, ci, r));
            }
            // handles still open are dropped here (their sync takes the lock: still scheduled)
            drop(sess.handles);
            TID.with(|t| t.set(-1));
            let _ = tx.send(Ev::Finished(tid));
        }));
    }

    // controller
    let mut parked: Vec<Option<GuardKind>> = vec![None; n];
    let mut finished = vec![false; n];
    let mut running: Vec<bool> = vec![true; n]; // started, not yet parked/finished
    let mut holding = vec![false; n];
    let mut schedule = vec![];
    let mut trace = vec![];
    let mut choices = vec![];
    let mut calls: Vec<Vec<String>> = vec![vec![]; n];
    let mut call_first: Vec<Option<usize>> = vec![None; n];
    let mut call_kinds: Vec<String> = vec![String::new(); n];
    let mut problem = None;
    let mut step = 0usize;
    'outer: loop {
        // wait until nobody is running
        while running.iter().any(|x| *x) {
            match from_workers.recv_timeout(Duration::from_millis(3000)) {
                Ok(Ev::Before(t, k)) => {
                    if holding[t] {
                        problem = Some(format!("nested-acquire thread {}", t));
                    }
                    parked[t] = Some(k);
                    running[t] = false;
                },
                Ok(Ev::Released(t)) => holding[t] = false,
                Ok(Ev::CallDone(t, _ci, r)) => {
                    let first = call_first[t].take();
                    let span = match first {
                        Some(f) => format!("@{}-{}", f, step.saturating_sub(1)),
                        None => "@-".to_string(),
                    };
                    calls[t].push(format!("{} {} {}", r, span, if call_kinds[t].is_empty() { "-".to_string() } else { call_kinds[t].clone() }));
                    call_kinds[t].clear();
                },
                Ok(Ev::Finished(t)) => {
                    finished[t] = true;
                    running[t] = false;
                },
                Err(_) => {
                    problem = Some("hang".to_string());
                    break 'outer;
                },
            }
        }
        let runnable: Vec<usize> = (0..n).filter(|t| !finished[*t] && parked[*t].is_some()).collect();
        if runnable.is_empty() {
            break;
        }
        let pick = if step < prefix.len() && runnable.contains(&prefix[step]) { prefix[step] } else { runnable[0] };
        choices.push(runnable.clone());
        schedule.push(pick);
        let k = parked[pick].take().unwrap();
        let ks = if k == GuardKind::Read { "R" } else { "W" };
        trace.push(format!("{}{}", pick, ks));
        if call_first[pick].is_none() {
            call_first[pick] = Some(step);
        }
        call_kinds[pick].push_str(ks);
        holding[pick] = true;
        running[pick] = true;
        step += 1;
        let _ = go_tx[pick].send(());
        if step > 400 {
            problem = Some("too-many-sections".to_string());
            break;
        }
    }
    set_guard_hook(None);
    if problem.is_none() {
        for h in handles {
            let _ = h.join();
        }
    } else {
        // leave stuck threads behind: unblock them so they can finish on their own
        for tx in go_tx.iter() {
            for _ in 0..1000 {
                if tx.send(()).is_err() {
                    break;
                }
            }
        }
    }
    let final_dump = dump(&base.vfs);
    (Outcome { schedule, trace: trace.join(" "), calls, final_dump, problem }, choices)
}

/// enumerate all schedules (depth-first over the decision points), up to `cap` executions
pub fn explore(env: &str, setup: &[Vec<String>], threads: &[Vec<Vec<String>>], cap: usize) -> (Vec<Outcome>, bool) {
    let mut out = vec![];
    let mut stack: Vec<Vec<usize>> = vec![vec![]];
    let mut complete = true;
    while let Some(prefix) = stack.pop() {
        if out.len() >= cap {
            complete = false;
            break;
        }
        let (o, choices) = run_once(env, setup, threads, &prefix);
        // branch on every decision point at or after the prefix length
        for i in prefix.len()..choices.len() {
            for alt in choices[i].iter() {
                if *alt != o.schedule[i] {
                    let mut p = o.schedule[..i].to_vec();
                    p.push(*alt);
                    stack.push(p);
                }
            }
        }
        let bad = o.problem.is_some();
        out.push(o);
        if bad {
            complete = false;
            break;
        }
    }
    (out, complete)
}

/// request: `sched e<env> S=<ops> T=<ops> T=<ops> ... [cap=<n>]` (ops joined by `~`, tokens by `+`)
pub fn call(args: &[&str]) -> Option<String> {
    let env = args.first()?.to_string();
    let mut setup = vec![];
    let mut threads = vec![];
    let mut cap = 3000usize;
    for a in &args[1..] {
        if let Some(s) = a.strip_prefix("S=") {
            setup = parse_ops(s);
        } else if let Some(s) = a.strip_prefix("T=") {
            threads.push(parse_ops(s));
        } else if let Some(s) = a.strip_prefix("cap=") {
            cap = s.parse().ok()?;
        } else {
            return None;
        }
    }
    let (outs, complete) = explore(&env, &setup, &threads, cap);
    // distinct observable outcomes (results + final state), with one schedule each
    let mut seen: Vec<String> = vec![];
    let mut lines = vec![];
    for o in outs.iter() {
        let key = format!(
            "calls={}|final={}|problem={}",
            o.calls.iter().map(|c| c.iter().map(|x| x.split(" @").next().unwrap().to_string()).collect::<Vec<_>>().join(";")).collect::<Vec<_>>().join("/"),
            o.final_dump.replace('|', "!"),
            o.problem.clone().unwrap_or_else(|| "-".to_string())
        );
        if !seen.contains(&key) {
            seen.push(key);
            lines.push(format!(
                "schedule={}|trace={}|calls={}|final={}|problem={}",
                o.schedule.iter().map(|x| x.to_string()).collect::<Vec<_>>().join(""),
                o.trace,
                o.calls.iter().map(|c| c.join(";")).collect::<Vec<_>>().join("/"),
                o.final_dump.replace('|', "!"),
                o.problem.clone().unwrap_or_else(|| "-".to_string())
            ));
        }
    }
    Some(format!("ok schedules={} complete={} distinct={} :: {}", outs.len(), complete as u8, lines.len(), lines.join(" || ")))
}

#[allow(dead_code)]
fn _unused(_: &Memfs) {}
