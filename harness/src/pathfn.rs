// Pure path / string helpers: one request per line, one canonical result per line.
use crate::util::*;
use rivia::prelude::*;

/// apply an `e<NAME>=<hex>,...` environment spec to the process (single-threaded harness)
pub fn apply_env(spec: &str, touched: &mut Vec<String>) -> Option<()> {
    let body = spec.strip_prefix('e')?;
    for k in touched.drain(..) {
        std::env::remove_var(k);
    }
    if body.is_empty() {
        return Some(());
    }
    for kv in body.split(',') {
        let (k, v) = kv.split_once('=')?;
        let v = String::from_utf8(unhex(v)?).ok()?;
        std::env::set_var(k, v);
        touched.push(k.to_string());
    }
    Some(())
}

pub fn call(fnname: &str, args: &[&str], touched: &mut Vec<String>) -> Option<String> {
    let s = |i: usize| -> Option<String> { arg_str(args.get(i)?) };
    let out = match (fnname, args.len()) {
        ("clean", 1) => { let a = s(0)?; guarded(|| format!("ok {}", show_path(&sys::clean(&a)))) },
        ("base", 1) => { let a = s(0)?; guarded(|| show_res(sys::base(&a), |x| show_str(x))) },
        ("last", 1) => { let a = s(0)?; guarded(|| show_res(sys::last(&a), |x| show_str(x))) },
        ("first", 1) => { let a = s(0)?; guarded(|| show_res(sys::first(&a), |x| show_str(x))) },
        ("name", 1) => { let a = s(0)?; guarded(|| show_res(sys::name(&a), |x| show_str(x))) },
        ("ext", 1) => { let a = s(0)?; guarded(|| show_res(sys::ext(&a), |x| show_str(x))) },
        ("dir", 1) => { let a = s(0)?; guarded(|| show_res(sys::dir(&a), |x| show_path(x))) },
        ("law_trim_ext", 1) => {
            let a = s(0)?;
            guarded(|| match sys::ext(&a) {
                Ok(e) => match sys::trim_ext(&a) {
                    Ok(t) => {
                        let joined = format!("{}.{}", t.to_string_lossy(), e);
                        format!("ok {}", show_bool(Path::new(&joined) == Path::new(&a)))
                    },
                    Err(_) => format!("ok {}", show_bool(false)),
                },
                Err(_) => format!("ok {}", show_bool(true)),
            })
        },
        ("dir_c", 1) => { let a = s(0)?; guarded(|| show_res(sys::dir(&a), |x| show_comps(x))) },
        ("trim_first_c", 1) => { let a = s(0)?; guarded(|| format!("ok {}", show_comps(&sys::trim_first(&a)))) },
        ("trim_last_c", 1) => { let a = s(0)?; guarded(|| format!("ok {}", show_comps(&sys::trim_last(&a)))) },
        ("trim_ext", 1) => { let a = s(0)?; guarded(|| show_res(sys::trim_ext(&a), |x| show_path(x))) },
        ("trim_first", 1) => { let a = s(0)?; guarded(|| format!("ok {}", show_path(&sys::trim_first(&a)))) },
        ("trim_last", 1) => { let a = s(0)?; guarded(|| format!("ok {}", show_path(&sys::trim_last(&a)))) },
        ("trim_protocol", 1) => { let a = s(0)?; guarded(|| format!("ok {}", show_path(&sys::trim_protocol(&a)))) },
        ("is_empty", 1) => { let a = s(0)?; guarded(|| format!("ok {}", show_bool(sys::is_empty(&a)))) },
        ("parse_paths", 1) => { let a = s(0)?; guarded(|| show_res(sys::parse_paths(&a), |x| show_paths(x))) },
        ("concat", 2) => { let (a, b) = (s(0)?, s(1)?); guarded(|| show_res(sys::concat(&a, &b), |x| show_path(x))) },
        ("mash", 2) => { let (a, b) = (s(0)?, s(1)?); guarded(|| format!("ok {}", show_path(&sys::mash(&a, &b)))) },
        ("has", 2) => { let (a, b) = (s(0)?, s(1)?); guarded(|| format!("ok {}", show_bool(sys::has(&a, &b)))) },
        ("has_prefix", 2) => { let (a, b) = (s(0)?, s(1)?); guarded(|| format!("ok {}", show_bool(sys::has_prefix(&a, &b)))) },
        ("has_suffix", 2) => { let (a, b) = (s(0)?, s(1)?); guarded(|| format!("ok {}", show_bool(sys::has_suffix(&a, &b)))) },
        ("trim_prefix", 2) => { let (a, b) = (s(0)?, s(1)?); guarded(|| format!("ok {}", show_path(&sys::trim_prefix(&a, &b)))) },
        ("trim_suffix", 2) => { let (a, b) = (s(0)?, s(1)?); guarded(|| format!("ok {}", show_path(&sys::trim_suffix(&a, &b)))) },
        ("relative", 2) => { let (a, b) = (s(0)?, s(1)?); guarded(|| show_res(sys::relative(&a, &b), |x| show_path(x))) },
        // relnav x<p> x<b>: relative(p, b) and where it navigates to: clean(b.join(relative))
        ("relnav", 2) => {
            let (a, b) = (s(0)?, s(1)?);
            guarded(|| match sys::relative(&a, &b) {
                Ok(r) => {
                    let nav = sys::clean(Path::new(&b).join(&r));
                    format!("ok l:{},{}", hex(r.to_string_lossy().as_bytes()), hex(nav.to_string_lossy().as_bytes()))
                },
                Err(e) => format!("err {}", err_kind(&e)),
            })
        },
        // expand x<path> e<env>
        ("expand", 2) => {
            let a = s(0)?;
            apply_env(args[1], touched)?;
            guarded(|| show_res(sys::expand(&a), |x| show_path(x)))
        },
        // abs_memfs x<cwd> x<path> e<env>   (cwd must be a clean absolute path)
        ("abs_memfs", 3) => {
            let (cwd, a) = (s(0)?, s(1)?);
            apply_env(args[2], touched)?;
            guarded(|| {
                let m = Memfs::new();
                if cwd != "/" {
                    if m.mkdir_p(&cwd).is_err() || m.set_cwd(&cwd).is_err() {
                        return "bad-cwd".to_string();
                    }
                }
                show_res(m.abs(&a), |x| show_path(x))
            })
        },
        _ => return None,
    };
    Some(out)
}
