#!/bin/bash
# MANIFEST.setup_cmd — build the framework offline from files on disk only.
set -e
cd /verif
export CARGO_NET_OFFLINE=true
mkdir -p work replays evidence
[ -f harness/Cargo.lock ] || cp /repo/Cargo.lock harness/Cargo.lock
(cd harness && cargo build --offline 2>&1 | tail -3)
# one lake invocation builds the library, the driver and every property module in parallel (about 2 min from
# scratch on 16 cores), so that the per-check `lake build` is a no-op
(cd lean && lake build Rivia driver $(for f in Rivia/Props/C*.lean; do echo Rivia.Props.$(basename $f .lean); done) 2>&1 | tail -3)
echo setup-done
