#!/bin/bash
# MANIFEST.setup_cmd — build the framework offline from files on disk only.
set -e
cd /verif
export CARGO_NET_OFFLINE=true
mkdir -p work replays evidence
[ -f harness/Cargo.lock ] || cp /repo/Cargo.lock harness/Cargo.lock
(cd harness && cargo build --offline 2>&1 | tail -3)
(cd lean && lake build Rivia driver 2>&1 | tail -3)
# pre-build every property module so that the per-check `lake build` is a no-op
(cd lean && for f in Rivia/Props/C*.lean; do m=$(basename $f .lean); lake build Rivia.Props.$m 2>&1 | tail -1; done)
echo setup-done
